/-
Lemmas/ConsistAux.lean — helper lemmas for the consistency section of Props/C07.lean: the three
cell-set models (Model/Flip.lean, Model/Cavity.lean, Model/StarRemoval.lean) agree where they
overlap.  `without` commutes with `sortNat`; the cells of a k = 1 move written as cone cells; the
boundary of a single cell is all its facets; the boundary of the removed / inserted region of a
bistellar move is `{ U \ {a, b} : a ∈ R, b ∈ I }`.  Core only (no Mathlib).
-/
import DelaunayModel.Lemmas.CavityAux
import DelaunayModel.Lemmas.StarRemovalAux
namespace DM

/-! ### `sortNat` and `without` -/

theorem sortNat_nodup {l : List Nat} (h : l.Nodup) : (sortNat l).Nodup :=
  (sortNat_perm l).nodup_iff.2 h

theorem sortNat_lt_sorted {l : List Nat} (h : l.Nodup) : (sortNat l).Pairwise (· < ·) :=
  le_sorted_nodup_lt (sortNat_sorted l) (sortNat_nodup h)

/-- removing a vertex commutes with sorting -/
theorem without_sortNat (l : List Nat) (x : Nat) :
    without (sortNat l) x = sortNat (without l x) := by
  apply sorted_perm_eq (without_le_sorted (sortNat_sorted l) x) (sortNat_sorted _)
  have h1 : (without (sortNat l) x).Perm (without l x) := (sortNat_perm l).filter _
  exact h1.trans (sortNat_perm _).symm

theorem without_append (a b : List Nat) (x : Nat) :
    without (a ++ b) x = without a x ++ without b x := by
  simp [without, List.filter_append]

/-- a sorted list is its own `sortNat` -/
theorem sortNat_of_sorted {l : List Nat} (h : l.Pairwise (· ≤ ·)) : sortNat l = l :=
  sorted_perm_eq (sortNat_sorted l) h (sortNat_perm l)

/-! ### the forward k = 1 move: `I = [w]` -/

/-- the single old cell of a k = 1 move is the removed face, sorted -/
theorem flipUnion_without_inserted {R : List Nat} {w : Nat} (h : (R ++ [w]).Nodup) :
    without (flipUnion R [w]) w = sortNat R := by
  have hw : w ∉ R := fun hm => (List.nodup_append.1 h).2.2 w hm w (List.mem_singleton.2 rfl) rfl
  unfold flipUnion
  rw [without_sortNat, without_append, without_eq_self hw]
  have : without [w] w = [] := by simp [without]
  rw [this, List.append_nil]

theorem flipOld_k1 {R : List Nat} {w : Nat} (h : (R ++ [w]).Nodup) :
    flipOld R [w] = [sortNat R] := by
  unfold flipOld
  rw [List.map_singleton, flipUnion_without_inserted h]

/-- a new cell of a k = 1 move is the cone from `w` over a facet of the old cell -/
theorem flipUnion_without_removed {R : List Nat} {w r : Nat} (h : (R ++ [w]).Nodup) (hr : r ∈ R) :
    without (flipUnion R [w]) r = coneCell w (without (sortNat R) r) := by
  have hwr : w ≠ r := fun e =>
    (List.nodup_append.1 h).2.2 r hr w (List.mem_singleton.2 rfl) e.symm
  unfold flipUnion coneCell
  rw [without_sortNat, sortNat_eq_iff_perm, without_append]
  have h1 : without [w] r = [w] := by
    unfold without
    rw [List.filter_cons_of_pos (by simpa using hwr)]
    rfl
  rw [h1]
  have h2 : (without R r).Perm (without (sortNat R) r) := (sortNat_perm R).symm.filter _
  exact (List.perm_append_comm (l₁ := without R r) (l₂ := [w])).trans (List.Perm.cons w h2)

theorem flipNew_k1 {R : List Nat} {w : Nat} (h : (R ++ [w]).Nodup) :
    flipNew R [w] = (R.map (without (sortNat R))).map (coneCell w) := by
  unfold flipNew
  rw [List.map_map]
  apply List.map_congr_left
  intro r hr
  exact flipUnion_without_removed h hr

/-- the forward k = 1 move IS a cavity insertion, as an equation of cell LISTS: removed region the
single cell `sortNat R`, coned facets the facets of that cell in the order of `R` -/
theorem flipCells_k1_eq (cells : List (List Nat)) {R : List Nat} {w : Nat} (h : (R ++ [w]).Nodup) :
    flipCells cells R [w] =
      cavityInsertWith cells [sortNat R] (R.map (without (sortNat R))) w := by
  unfold flipCells cavityInsertWith
  rw [flipOld_k1 h, flipNew_k1 h]

/-! ### the boundary of a single cell -/

theorem cellFacets_single (c : List Nat) : cellFacets [c] = c.map (without c) := by
  simp [cellFacets]

/-- the boundary of a single duplicate-free cell is the list of all its facets -/
theorem cavityBoundary_single {c : List Nat} (hc : c.Nodup) :
    cavityBoundary [c] = c.map (without c) := by
  unfold cavityBoundary
  rw [cellFacets_single]
  dsimp only
  rw [List.filter_eq_self]
  intro f hf
  have := (facets_nodup hc).count (a := f)
  rw [if_pos hf] at this
  simpa using this

theorem mem_cavityBoundary_single {c f : List Nat} (hc : c.Nodup) :
    f ∈ cavityBoundary [c] ↔ ∃ x ∈ c, without c x = f := by
  rw [cavityBoundary_single hc, List.mem_map]

theorem facetCount_single_facet {c : List Nat} (hc : c.Nodup) {x : Nat} (hx : x ∈ c) :
    facetCount [c] (without c x) = 1 :=
  mem_cavityBoundary.1 ((mem_cavityBoundary_single hc).2 ⟨x, hx, rfl⟩)

/-- for a sorted removed face the k = 1 move and the interior cavity insertion are the same LIST -/
theorem flipCells_k1_eq_cavityInsert_of_sorted (cells : List (List Nat)) {R : List Nat} {w : Nat}
    (h : (R ++ [w]).Nodup) (hs : R.Pairwise (· ≤ ·)) :
    flipCells cells R [w] = cavityInsert cells [R] w := by
  have hR : R.Nodup := (List.nodup_append.1 h).1
  rw [flipCells_k1_eq cells h, sortNat_of_sorted hs]
  unfold cavityInsert
  rw [cavityBoundary_single hR]

/-! ### the inverse k = 1 move: `R = [r]` -/

/-- the union without the removed vertex is the inserted face, sorted -/
theorem flipUnion_without_removed_vertex {I : List Nat} {r : Nat} (h : ([r] ++ I).Nodup) :
    without (flipUnion [r] I) r = sortNat I := by
  have hr : r ∉ I := fun hm => (List.nodup_append.1 h).2.2 r (List.mem_singleton.2 rfl) r hm rfl
  unfold flipUnion
  rw [without_sortNat, without_append, without_eq_self hr]
  have : without [r] r = [] := by simp [without]
  rw [this, List.nil_append]

/-- the single new cell of the inverse k = 1 move is the inserted face, sorted -/
theorem flipNew_k1_inverse {I : List Nat} {r : Nat} (h : ([r] ++ I).Nodup) :
    flipNew [r] I = [sortNat I] := by
  unfold flipNew
  rw [List.map_singleton, flipUnion_without_removed_vertex h]

/-- every old cell of the inverse k = 1 move contains the removed vertex -/
theorem flipOld_k1_inverse_contains {I : List Nat} {r : Nat} (h : ([r] ++ I).Nodup) {c : List Nat}
    (hc : c ∈ flipOld [r] I) : r ∈ c := by
  obtain ⟨w, hw, rfl⟩ := mem_flipOld.1 hc
  have hrw : r ≠ w := (List.nodup_append.1 h).2.2 r (List.mem_singleton.2 rfl) w hw
  exact mem_without.2 ⟨mem_flipUnion.2 (Or.inl (List.mem_singleton.2 rfl)), hrw⟩

/-! ### the boundary of the removed / inserted region of a general move -/

/-- a facet of a cell `U \ {a}`, `a ∈ L`, is `U \ {a, b}` with `b ∈ U`, `b ≠ a` -/
theorem facet_of_map_without {U L f : List Nat} (h : f ∈ cellFacets (L.map (without U))) :
    ∃ a ∈ L, ∃ b ∈ U, a ≠ b ∧ f = without (without U a) b := by
  obtain ⟨c, hc, x, hx, rfl⟩ := mem_cellFacets.1 h
  obtain ⟨a, ha, rfl⟩ := List.mem_map.1 hc
  obtain ⟨hxU, hxa⟩ := mem_without.1 hx
  exact ⟨a, ha, x, hxU, fun e => hxa e.symm, rfl⟩

/-- the boundary facets of the removed region `flipOld R I` are exactly the `U \ {a, b}` with one
omitted vertex in each face -/
theorem mem_cavityBoundary_flipOld {R I : List Nat} (h : (R ++ I).Nodup) {f : List Nat} :
    f ∈ cavityBoundary (flipOld R I) ↔
      ∃ a ∈ R, ∃ b ∈ I, f = without (without (flipUnion R I) a) b := by
  have hRI := List.nodup_append.1 h
  have hU := flipUnion_nodup h
  have hsub : ∀ x ∈ I, x ∈ flipUnion R I := fun _ hx => mem_flipUnion.2 (Or.inr hx)
  rw [mem_cavityBoundary]
  constructor
  · intro h1
    have hm : f ∈ cellFacets (flipOld R I) := by
      unfold facetCount at h1
      exact List.count_pos_iff.1 (by omega)
    obtain ⟨w, hw, x, hx, hwx, rfl⟩ := facet_of_map_without hm
    unfold flipOld at h1
    rw [map_without_facetCount hU hsub (hsub w hw) hx hwx, hRI.2.1.count, hRI.2.1.count,
      if_pos hw] at h1
    have hxI : x ∉ I := by
      intro hxI
      rw [if_pos hxI] at h1
      omega
    have hxR : x ∈ R := by
      rcases mem_flipUnion.1 hx with h' | h'
      · exact h'
      · exact absurd h' hxI
    exact ⟨x, hxR, w, hw, without_comm _ _ _⟩
  · rintro ⟨a, ha, b, hb, rfl⟩
    have hab : a ≠ b := hRI.2.2 a ha b hb
    have haI : a ∉ I := fun h' => hRI.2.2 a ha a h' rfl
    unfold flipOld
    rw [map_without_facetCount hU hsub (mem_flipUnion.2 (Or.inl ha)) (hsub b hb) hab,
      hRI.2.1.count, hRI.2.1.count, if_neg haI, if_pos hb]

/-- the boundary facets of the inserted region `flipNew R I` are the same facets -/
theorem mem_cavityBoundary_flipNew {R I : List Nat} (h : (R ++ I).Nodup) {f : List Nat} :
    f ∈ cavityBoundary (flipNew R I) ↔
      ∃ a ∈ R, ∃ b ∈ I, f = without (without (flipUnion R I) a) b := by
  have h' : (I ++ R).Nodup := (List.perm_append_comm.nodup_iff).1 h
  rw [← flipOld_swap, mem_cavityBoundary_flipOld h', flipUnion_comm]
  constructor
  · rintro ⟨b, hb, a, ha, rfl⟩
    exact ⟨a, ha, b, hb, without_comm _ _ _⟩
  · rintro ⟨a, ha, b, hb, rfl⟩
    exact ⟨b, hb, a, ha, without_comm _ _ _⟩

/-- the removed and the inserted region of a bistellar move have the same boundary -/
theorem flip_region_boundary_iff {R I : List Nat} (h : (R ++ I).Nodup) (f : List Nat) :
    f ∈ cavityBoundary (flipOld R I) ↔ f ∈ cavityBoundary (flipNew R I) := by
  rw [mem_cavityBoundary_flipOld h, mem_cavityBoundary_flipNew h]

end DM
