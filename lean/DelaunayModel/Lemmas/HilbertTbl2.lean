/-
Lemmas/HilbertTbl2.lean — Hilbert curve tables (`curveOk D b = true` by kernel evaluation); split over
several files only so that `lake` checks them in parallel.
-/
import DelaunayModel.Lemmas.HilbertAux
namespace DM.HilbertAux

theorem curveOk_2_1 : curveOk 2 1 = true := by decide +kernel
theorem curveOk_2_2 : curveOk 2 2 = true := by decide +kernel
theorem curveOk_2_3 : curveOk 2 3 = true := by decide +kernel
theorem curveOk_2_4 : curveOk 2 4 = true := by decide +kernel
theorem curveOk_3_1 : curveOk 3 1 = true := by decide +kernel
theorem curveOk_3_2 : curveOk 3 2 = true := by decide +kernel
theorem curveOk_3_3 : curveOk 3 3 = true := by decide +kernel
theorem curveOk_4_1 : curveOk 4 1 = true := by decide +kernel
theorem curveOk_4_2 : curveOk 4 2 = true := by decide +kernel
theorem curveOk_5_1 : curveOk 5 1 = true := by decide +kernel

end DM.HilbertAux
