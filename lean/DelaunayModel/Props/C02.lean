/-
Props/C02.lean — property theorems for C02 (incremental insertion never leaves the validity
stack broken).

 * `selectCheck_*`: the validation chosen after an insertion, as a function of
   (ValidationPolicy, TopologyGuarantee, suspicion, build profile), is the documented table; in
   particular under PLManifold / PLManifoldStrict an insertion that produced cells is NEVER
   committed unchecked, and under `Always` the full Level 3 runs.
 * `safetyNet_ok_checked`: whatever `try_insert_impl` does (it is a parameter), a state returned
   by the safety net has no cells (bootstrap) or passed the selected check — star-split fallback
   included.
 * `insert_commit_or_restore`: `insert_transactional` either commits such a state or leaves the
   snapshot in place (Skipped and Err alike), for every number of perturbation retries.
Modelled, not verified: the cavity / hull-extension / star-split geometry (`Env.impl`).  Under
`ValidationPolicy::Never` + `Pseudomanifold` no check runs (`selectCheck_never_pseudo`); there the
property rests on the algorithm alone and only the K3 tie speaks.
 * cavity section (end of file, Model/Cavity.lean): the CELL-SET edit of the cavity / hull-extension
   step (remove the conflict region `C`, cone the new vertex over `F`) — count, star/link of the new
   vertex, which old vertices survive (`cavity_swallowed_vertex_isolated`), facet degrees, and the
   executable step check `cavityStepProblem` (sound and complete).  The geometry (which cells are in
   conflict, which hull facets are visible) stays a parameter.
-/
import DelaunayModel.Model.Insert
import DelaunayModel.Lemmas.CavityAux
namespace DM.C02

open DM.Policy DM.Insert
-- Model/Cavity.lean (imported for the cavity section at the end of this file) brings in Model/Cx.lean,
-- whose `DM.Guarantee` (:= Nat) would shadow `DM.Policy.Guarantee` inside `namespace DM.C02`; the
-- alias makes `Guarantee` mean `DM.Policy.Guarantee` here, as before.
export DM.Policy (Guarantee)

/-- the whole decision table, stated outright -/
theorem selectCheck_table (p : VPolicy) (g : Guarantee) (susp debug hasCells : Bool) :
    selectCheck p g susp debug hasCells =
      if !hasCells then Check.none
      else if p.shouldValidate susp debug then Check.full
      else match g with
        | .plManifoldStrict => Check.linksStrict
        | .plManifold => Check.links
        | .pseudomanifold => Check.none := by
  cases g <;> cases p <;> cases susp <;> cases debug <;> cases hasCells <;> rfl

theorem selectCheck_always (g : Guarantee) (susp debug : Bool) :
    selectCheck .always g susp debug true = .full := by
  cases g <;> cases susp <;> cases debug <;> rfl

/-- PL guarantees are non-negotiable: some check always runs once there are cells -/
theorem selectCheck_pl_never_none (p : VPolicy) (g : Guarantee) (susp debug : Bool)
    (hg : g ≠ .pseudomanifold) : selectCheck p g susp debug true ≠ .none := by
  cases g <;> cases p <;> cases susp <;> cases debug <;> simp_all [selectCheck, VPolicy.shouldValidate,
    Guarantee.requiresVertexLinksDuringInsertion, Guarantee.requiresRidgeLinks]

theorem selectCheck_strict (p : VPolicy) (susp debug : Bool) :
    selectCheck p .plManifoldStrict susp debug true = .full ∨
    selectCheck p .plManifoldStrict susp debug true = .linksStrict := by
  cases p <;> cases susp <;> cases debug <;> simp [selectCheck, VPolicy.shouldValidate,
    Guarantee.requiresVertexLinksDuringInsertion]

/-- the one combination in which nothing is validated -/
theorem selectCheck_never_pseudo (susp debug : Bool) :
    selectCheck .never .pseudomanifold susp debug true = .none := by
  cases susp <;> cases debug <;> rfl

theorem selectCheck_suspicious (g : Guarantee) (debug : Bool) :
    selectCheck .onSuspicion g true debug true = .full := by
  cases g <;> cases debug <;> rfl

/-- setters refuse exactly `Never` under a PL guarantee -/
theorem compatible_table (g : Guarantee) (p : VPolicy) :
    g.compatibleWith p = false ↔ (g ≠ .pseudomanifold ∧ p = .never) := by
  cases g <;> cases p <;> simp [Guarantee.compatibleWith]

variable {S : Type}

/-- any state the safety net returns is a bootstrap state or passed the check selected for it -/
theorem safetyNet_ok_checked (env : Env S) (p : VPolicy) (g : Guarantee) (debug : Bool)
    (snap : S) (attempt : Nat) (s' : S) (h : safetyNet env p g debug snap attempt = .ok s') :
    env.hasCells s' = false ∨
      ∃ susp, env.runCheck (selectCheck p g susp debug true) s' = true := by
  unfold safetyNet at h
  split at h
  · simp at h
  · rename_i s1 susp0 _
    simp only at h
    split at h
    · rename_i hc
      injection h with h; subst h
      left; simpa using hc
    · split at h
      · rename_i hchk
        injection h with h; subst h
        right; exact ⟨_, hchk⟩
      · split at h
        · simp at h
        · split at h
          · simp at h
          · rename_i s2 _ _
            split at h
            · rename_i hchk
              injection h with h; subst h
              cases hc2 : env.hasCells s2 with
              | false => left; rfl
              | true => right; rw [hc2] at hchk; exact ⟨true, hchk⟩
            · simp at h

/-- what every insertion must satisfy: `Inserted s'` leaves exactly `s'` (which is bootstrap or
passed its check); every other outcome leaves the snapshot `s0`. -/
def CommitOrRestore (env : Env S) (p : VPolicy) (g : Guarantee) (debug : Bool) (s0 : S) :
    Outcome S × S → Prop
  | (.inserted s', final) => final = s' ∧
      (env.hasCells s' = false ∨ ∃ susp, env.runCheck (selectCheck p g susp debug true) s' = true)
  | (.skipped _, final) => final = s0
  | (.failed _, final) => final = s0

theorem insertLoop_commit_or_restore (env : Env S) (p : VPolicy) (g : Guarantee) (debug : Bool)
    (s0 : S) (fuel attempt : Nat) :
    CommitOrRestore env p g debug s0 (insertLoop env p g debug s0 fuel attempt) := by
  induction fuel generalizing attempt with
  | zero => simp [insertLoop, CommitOrRestore]
  | succ f ih =>
    unfold insertLoop
    by_cases hdup : env.isDuplicate s0 attempt = true
    · simp [hdup, CommitOrRestore]
    · simp only [hdup]
      cases hsn : safetyNet env p g debug s0 attempt with
      | ok s1 =>
        exact ⟨rfl, safetyNet_ok_checked env p g debug s0 attempt s1 hsn⟩
      | error e =>
        by_cases hd : env.dupErr e = true
        · simp [hd, CommitOrRestore]
        · by_cases hr : env.retryable e = true
          · simp only [hd, hr]
            exact ih (attempt + 1)
          · simp [hd, hr, CommitOrRestore]

/-- **commit-or-restore** for `insert_transactional`, any number of perturbation retries -/
theorem insert_commit_or_restore (env : Env S) (p : VPolicy) (g : Guarantee) (debug : Bool)
    (maxPerturb : Nat) (s0 : S) :
    CommitOrRestore env p g debug s0 (insertTransactional env p g debug maxPerturb s0) :=
  insertLoop_commit_or_restore env p g debug s0 (maxPerturb + 1) 0

/-- non-vacuity: an environment whose first attempt breaks topology and whose star-split fallback
passes commits the fallback state -/
example :
    (insertTransactional (S := Nat)
      { impl := fun s _ star => .ok (if star then s + 10 else s + 1, false),
        relocates := fun _ => true, runCheck := fun _ s => s ≥ 10, hasCells := fun _ => true,
        isDuplicate := fun _ _ => false, retryable := fun _ => true, dupErr := fun _ => false }
      .always .plManifold true 1 0).2 = 10 := by rfl

end DM.C02

/-! ## The cavity step (`insert_with_conflict_region` / hull extension) on the abstract complex

Model: Model/Cavity.lean — remove the cells `C`, add the cone from the new vertex `v` over the facets
`F` (`cavityInsertWith`; interior instance `cavityInsert` with `F = cavityBoundary C`).  All
theorems hold for every cell list (no bound on size or dimension).  Standing hypotheses, stated
where they are used: cells / facets are sorted duplicate-free lists (`Pairwise (· < ·)`),
`cells.Nodup`, `C ⊆ cells`, `v` fresh (`∀ c ∈ cells, v ∉ c`).

 * §c1 `cavity_mem`, `cavity_new_contains_v`, `cavity_old_without_v`
 * §c2 `cavity_length`, `cavity_nodup`, `cavity_count`
 * §c3 `cavity_vertex_kept_iff`, `cavity_swallowed_vertex_isolated` (the isolated-vertex situation)
 * §c4 `cavity_star_of_v`, `cavity_star_eq`, `cavity_link_eq` (the link of the new vertex is `F`)
 * §c5 facet degrees: `cavity_facet_degree_with`, `cavity_facet_degree`,
       `cavity_facet_degree_le_two(_with)`, `cavity_ridge_degree`
 * §c6 `cavityStepProblem_none_sound` (the executable check certifies a cavity step),
       `cavityStepProblem_complete` (every interior cavity insertion passes it)
 * §c7 non-vacuity by `decide`
Helper lemmas: Lemmas/CavityAux.lean.  Core only.
-/
namespace DM.C02
open DM

/-! ### §c1 membership -/

theorem cavity_mem (cells C F : List (List Nat)) (v : Nat) (x : List Nat) :
    x ∈ cavityInsertWith cells C F v ↔ (x ∈ cells ∧ x ∉ C) ∨ ∃ f ∈ F, x = coneCell v f := by
  unfold cavityInsertWith
  rw [List.mem_append, List.mem_filter, List.mem_map]
  constructor
  · rintro (⟨h1, h2⟩ | ⟨f, hf, rfl⟩)
    · exact Or.inl ⟨h1, by simpa using h2⟩
    · exact Or.inr ⟨f, hf, rfl⟩
  · rintro (⟨h1, h2⟩ | ⟨f, hf, rfl⟩)
    · exact Or.inl ⟨h1, by simpa using h2⟩
    · exact Or.inr ⟨f, hf, rfl⟩

/-- every cone cell contains the new vertex -/
theorem cavity_new_contains_v (v : Nat) (f : List Nat) : v ∈ coneCell v f := self_mem_coneCell v f

/-- kept cells do not contain the new vertex -/
theorem cavity_old_without_v {cells C : List (List Nat)} {v : Nat} (hfresh : ∀ c ∈ cells, v ∉ c) :
    ∀ x ∈ cells.filter (fun c => !C.contains c), v ∉ x :=
  fun x hx => hfresh x (List.mem_filter.1 hx).1

/-! ### §c2 cell count -/

/-- additive form (no truncated subtraction) -/
theorem cavity_length_add {cells C : List (List Nat)} (F : List (List Nat)) (v : Nat)
    (hnd : cells.Nodup) (hC : C.Nodup) (hsub : ∀ c ∈ C, c ∈ cells) :
    (cavityInsertWith cells C F v).length + C.length = cells.length + F.length := by
  have hp := (filter_not_contains_append_perm hnd hC hsub).length_eq
  rw [List.length_append] at hp
  unfold cavityInsertWith
  rw [List.length_append, List.length_map]
  omega

theorem cavity_length {cells C : List (List Nat)} (F : List (List Nat)) (v : Nat)
    (hnd : cells.Nodup) (hC : C.Nodup) (hsub : ∀ c ∈ C, c ∈ cells) :
    (cavityInsertWith cells C F v).length = cells.length - C.length + F.length := by
  have := cavity_length_add F v hnd hC hsub
  have hp := (filter_not_contains_append_perm hnd hC hsub).length_eq
  rw [List.length_append] at hp
  omega

theorem cavity_nodup {cells F : List (List Nat)} (C : List (List Nat)) {v : Nat}
    (hnd : cells.Nodup) (hF : F.Nodup) (hFs : ∀ f ∈ F, f.Pairwise (· < ·))
    (hfresh : ∀ c ∈ cells, v ∉ c) : (cavityInsertWith cells C F v).Nodup := by
  unfold cavityInsertWith
  refine List.nodup_append.2 ⟨List.Nodup.sublist List.filter_sublist hnd,
    map_coneCell_nodup hF (fun f hf => lt_sorted_le (hFs f hf)), ?_⟩
  rintro a ha b hb rfl
  obtain ⟨f, _, rfl⟩ := List.mem_map.1 hb
  exact cavity_old_without_v hfresh _ ha (self_mem_coneCell v f)

/-- the cell count changes by exactly `|F| - |C|`, and no cell is duplicated -/
theorem cavity_count {cells C F : List (List Nat)} {v : Nat} (hnd : cells.Nodup) (hC : C.Nodup)
    (hsub : ∀ c ∈ C, c ∈ cells) (hF : F.Nodup) (hFs : ∀ f ∈ F, f.Pairwise (· < ·))
    (hfresh : ∀ c ∈ cells, v ∉ c) :
    (cavityInsertWith cells C F v).length = cells.length - C.length + F.length ∧
    (cavityInsertWith cells C F v).Nodup :=
  ⟨cavity_length F v hnd hC hsub, cavity_nodup C hnd hF hFs hfresh⟩

/-! ### §c3 which old vertices survive -/

theorem cavity_vertex_kept_iff (cells C F : List (List Nat)) {u v : Nat} (huv : u ≠ v) :
    (∃ x ∈ cavityInsertWith cells C F v, u ∈ x) ↔
      (∃ c ∈ cells, c ∉ C ∧ u ∈ c) ∨ (∃ f ∈ F, u ∈ f) := by
  constructor
  · rintro ⟨x, hx, hu⟩
    rcases (cavity_mem cells C F v x).1 hx with ⟨h1, h2⟩ | ⟨f, hf, rfl⟩
    · exact Or.inl ⟨x, h1, h2, hu⟩
    · rcases mem_coneCell.1 hu with h | h
      · exact absurd h huv
      · exact Or.inr ⟨f, hf, h⟩
  · rintro (⟨c, h1, h2, hu⟩ | ⟨f, hf, hu⟩)
    · exact ⟨c, (cavity_mem cells C F v c).2 (Or.inl ⟨h1, h2⟩), hu⟩
    · exact ⟨coneCell v f, (cavity_mem cells C F v _).2 (Or.inr ⟨f, hf, rfl⟩),
        mem_coneCell.2 (Or.inr hu)⟩

/-- **isolated vertex after insertion**: if the removed region swallows the whole star of an old
vertex `u` and `u` is on no coned facet, then `u` is in no cell afterwards -/
theorem cavity_swallowed_vertex_isolated (cells C F : List (List Nat)) {u v : Nat} (huv : u ≠ v)
    (hstar : ∀ c ∈ cells, u ∈ c → c ∈ C) (hF : ∀ f ∈ F, u ∉ f) :
    ∀ x ∈ cavityInsertWith cells C F v, u ∉ x := by
  intro x hx hu
  rcases (cavity_vertex_kept_iff cells C F huv).1 ⟨x, hx, hu⟩ with ⟨c, h1, h2, h3⟩ | ⟨f, hf, h⟩
  · exact h2 (hstar c h1 h3)
  · exact hF f hf h

/-- the same, through `vertexSet` -/
theorem cavity_swallowed_vertex_not_in_vertexSet (cells C F : List (List Nat)) {u v : Nat}
    (huv : u ≠ v) (hstar : ∀ c ∈ cells, u ∈ c → c ∈ C) (hF : ∀ f ∈ F, u ∉ f) :
    u ∉ vertexSet (cavityInsertWith cells C F v) := by
  intro h
  obtain ⟨x, hx, hu⟩ := mem_vertexSet.1 h
  exact cavity_swallowed_vertex_isolated cells C F huv hstar hF x hx hu

/-- conversely an old vertex with a cell outside the removed region stays -/
theorem cavity_vertex_survives {cells C : List (List Nat)} (F : List (List Nat)) (v : Nat) {u : Nat}
    {c : List Nat} (hc : c ∈ cells) (hcC : c ∉ C) (hu : u ∈ c) :
    u ∈ vertexSet (cavityInsertWith cells C F v) :=
  mem_vertexSet.2 ⟨c, (cavity_mem cells C F v c).2 (Or.inl ⟨hc, hcC⟩), hu⟩

/-! ### §c4 the star and the link of the new vertex -/

/-- the cells containing `v` afterwards are exactly the cone cells -/
theorem cavity_star_of_v {cells : List (List Nat)} (C F : List (List Nat)) {v : Nat}
    (hfresh : ∀ c ∈ cells, v ∉ c) (x : List Nat) :
    (x ∈ cavityInsertWith cells C F v ∧ v ∈ x) ↔ ∃ f ∈ F, x = coneCell v f := by
  rw [cavity_mem]
  constructor
  · rintro ⟨⟨h1, _⟩ | h, hv⟩
    · exact absurd hv (hfresh x h1)
    · exact h
  · rintro ⟨f, hf, rfl⟩
    exact ⟨Or.inr ⟨f, hf, rfl⟩, self_mem_coneCell v f⟩

/-- as lists: the star of `v` is the list of cone cells -/
theorem cavity_star_eq {cells : List (List Nat)} (C F : List (List Nat)) {v : Nat}
    (hfresh : ∀ c ∈ cells, v ∉ c) :
    starOf (cavityInsertWith cells C F v) v = F.map (coneCell v) := by
  unfold starOf cavityInsertWith
  rw [List.filter_append]
  have e1 : (cells.filter (fun c => !C.contains c)).filter (·.contains v) = [] := by
    rw [List.filter_eq_nil_iff]
    intro a ha
    have := cavity_old_without_v hfresh a ha
    simpa using this
  have e2 : (F.map (coneCell v)).filter (·.contains v) = F.map (coneCell v) := by
    rw [List.filter_eq_self]
    intro a ha
    obtain ⟨f, _, rfl⟩ := List.mem_map.1 ha
    simpa using self_mem_coneCell v f
  rw [e1, e2, List.nil_append]

/-- the link of the new vertex is `F` (as a list, in order) -/
theorem cavity_link_eq {cells F : List (List Nat)} (C : List (List Nat)) {v : Nat}
    (hfresh : ∀ c ∈ cells, v ∉ c) (hFs : ∀ f ∈ F, f.Pairwise (· < ·)) (hvF : ∀ f ∈ F, v ∉ f) :
    linkOf (cavityInsertWith cells C F v) v = F := by
  unfold linkOf
  rw [cavity_star_eq C F hfresh, List.map_map]
  have : ∀ f ∈ F, ((fun c => without c v) ∘ coneCell v) f = id f := fun f hf =>
    without_coneCell_self (lt_sorted_le (hFs f hf)) (hvF f hf)
  rw [List.map_congr_left this, List.map_id]

/-- interior instance: the link of the new vertex is the boundary of the removed region -/
theorem cavity_link_interior {cells C : List (List Nat)} {v : Nat}
    (hs : ∀ c ∈ cells, c.Pairwise (· < ·)) (hsub : ∀ c ∈ C, c ∈ cells)
    (hfresh : ∀ c ∈ cells, v ∉ c) : linkOf (cavityInsert cells C v) v = cavityBoundary C :=
  cavity_link_eq C hfresh (cavityBoundary_lt_sorted (fun c hc => hs c (hsub c hc)))
    (cavityBoundary_fresh (fun c hc => hfresh c (hsub c hc)))

/-! ### §c5 facet degrees -/

/-- facets not containing `v`, general `F`: the degree drops by the degree inside the removed
region and rises by one iff the facet is coned -/
theorem cavity_facet_degree_with {cells C F : List (List Nat)} {v : Nat} (hnd : cells.Nodup)
    (hC : C.Nodup) (hsub : ∀ c ∈ C, c ∈ cells) (hF : F.Nodup)
    (hFs : ∀ f ∈ F, f.Pairwise (· < ·)) (hvF : ∀ f ∈ F, v ∉ f) {f : List Nat} (hvf : v ∉ f) :
    facetCount (cavityInsertWith cells C F v) f =
      facetCount cells f - facetCount C f + (if f ∈ F then 1 else 0) := by
  unfold cavityInsertWith
  rw [facetCount_append, facetCount_cone_base hFs hvF hvf, hF.count,
    facetCount_filter_split hnd hC hsub f]
  omega

/-- facets not containing `v`, interior instance -/
theorem cavity_facet_degree {cells C : List (List Nat)} {v : Nat} (hnd : cells.Nodup)
    (hs : ∀ c ∈ cells, c.Pairwise (· < ·)) (hC : C.Nodup) (hsub : ∀ c ∈ C, c ∈ cells)
    (hfresh : ∀ c ∈ cells, v ∉ c) {f : List Nat} (hvf : v ∉ f) :
    facetCount (cavityInsert cells C v) f =
      facetCount cells f - facetCount C f + (if f ∈ cavityBoundary C then 1 else 0) :=
  cavity_facet_degree_with hnd hC hsub (cavityBoundary_nodup C)
    (cavityBoundary_lt_sorted (fun c hc => hs c (hsub c hc)))
    (cavityBoundary_fresh (fun c hc => hfresh c (hsub c hc))) hvf

/-- a facet has at least the degree in `cells` that it has in `C ⊆ cells` -/
theorem cavity_facetCount_removed_le {cells C : List (List Nat)} (hnd : cells.Nodup) (hC : C.Nodup)
    (hsub : ∀ c ∈ C, c ∈ cells) (f : List Nat) : facetCount C f ≤ facetCount cells f := by
  rw [facetCount_filter_split hnd hC hsub f]
  omega

/-- general `F` (interior or hull extension): if every coned facet is a boundary facet of the
removed region or has degree ≤ 1 before (a hull facet), facets not containing `v` keep degree ≤ 2 -/
theorem cavity_facet_degree_le_two_with {cells C F : List (List Nat)} {v : Nat} (hnd : cells.Nodup)
    (hC : C.Nodup) (hsub : ∀ c ∈ C, c ∈ cells) (hF : F.Nodup)
    (hFs : ∀ f ∈ F, f.Pairwise (· < ·)) (hvF : ∀ f ∈ F, v ∉ f)
    (hFok : ∀ f ∈ F, f ∈ cavityBoundary C ∨ facetCount cells f ≤ 1)
    (h2 : ∀ f, facetCount cells f ≤ 2) {f : List Nat} (hvf : v ∉ f) :
    facetCount (cavityInsertWith cells C F v) f ≤ 2 := by
  rw [cavity_facet_degree_with hnd hC hsub hF hFs hvF hvf]
  have hle := cavity_facetCount_removed_le hnd hC hsub f
  have := h2 f
  by_cases hm : f ∈ F
  · rw [if_pos hm]
    rcases hFok f hm with hb | h1
    · have := mem_cavityBoundary.1 hb
      omega
    · omega
  · rw [if_neg hm]
    omega

/-- interior instance: if every facet has degree ≤ 2 before, every facet not containing `v` still
has degree ≤ 2 afterwards -/
theorem cavity_facet_degree_le_two {cells C : List (List Nat)} {v : Nat} (hnd : cells.Nodup)
    (hs : ∀ c ∈ cells, c.Pairwise (· < ·)) (hC : C.Nodup) (hsub : ∀ c ∈ C, c ∈ cells)
    (hfresh : ∀ c ∈ cells, v ∉ c) (h2 : ∀ f, facetCount cells f ≤ 2) {f : List Nat}
    (hvf : v ∉ f) : facetCount (cavityInsert cells C v) f ≤ 2 :=
  cavity_facet_degree_le_two_with hnd hC hsub (cavityBoundary_nodup C)
    (cavityBoundary_lt_sorted (fun c hc => hs c (hsub c hc)))
    (cavityBoundary_fresh (fun c hc => hfresh c (hsub c hc))) (fun _ hf => Or.inl hf) h2 hvf

/-- facets containing `v` (ridge-cones): the degree of `r ∪ {v}` afterwards is the number of
facets of `F` that contain the ridge `r` -/
theorem cavity_ridge_degree {cells F : List (List Nat)} (C : List (List Nat)) {v : Nat}
    (hfresh : ∀ c ∈ cells, v ∉ c) (hFs : ∀ f ∈ F, f.Pairwise (· < ·)) (hvF : ∀ f ∈ F, v ∉ f)
    {r : List Nat} (hr : r.Pairwise (· ≤ ·)) :
    facetCount (cavityInsertWith cells C F v) (coneCell v r) = ridgeCount F r := by
  unfold cavityInsertWith ridgeCount
  rw [facetCount_append, facetCount_cone_ridge hFs hvF hr,
    facetCount_eq_zero_of_fresh (cavity_old_without_v hfresh) (self_mem_coneCell v r)]
  omega

/-- hence: if every ridge lies in at most two facets of `F` (e.g. `F` is a closed pseudomanifold),
every facet through `v` has degree ≤ 2 -/
theorem cavity_ridge_degree_le_two {cells F : List (List Nat)} (C : List (List Nat)) {v : Nat}
    (hfresh : ∀ c ∈ cells, v ∉ c) (hFs : ∀ f ∈ F, f.Pairwise (· < ·)) (hvF : ∀ f ∈ F, v ∉ f)
    (h2 : ∀ r, ridgeCount F r ≤ 2) {r : List Nat} (hr : r.Pairwise (· ≤ ·)) :
    facetCount (cavityInsertWith cells C F v) (coneCell v r) ≤ 2 := by
  rw [cavity_ridge_degree C hfresh hFs hvF hr]
  exact h2 r

/-! ### §c6 the executable step check -/

/-- what `cavityStepProblem pre post v = none` checks, in `Prop` form; `C = stepRemoved pre post`
(`pre \ post`), `N = stepCreated pre post` (`post \ pre`), `L = stepLink pre post v` -/
structure StepChecks (pre post : List (List Nat)) (v : Nat) : Prop where
  fresh : ∀ c ∈ pre, v ∉ c
  created : stepCreated pre post ≠ []
  new_contains : ∀ c ∈ stepCreated pre post, v ∈ c
  link_nodup : (stepLink pre post v).Nodup
  boundary_covered : ∀ f ∈ cavityBoundary (stepRemoved pre post),
    f ∈ stepLink pre post v ∨ facetCount pre f = 1
  link_justified : ∀ f ∈ stepLink pre post v, f ∈ cavityBoundary (stepRemoved pre post) ∨
    (facetCount pre f = 1 ∧ facetCount (stepRemoved pre post) f = 0)
  post_sub : ∀ x ∈ post,
    x ∈ cavityInsertWith pre (stepRemoved pre post) (stepLink pre post v) v
  sub_post : ∀ x ∈ cavityInsertWith pre (stepRemoved pre post) (stepLink pre post v) v, x ∈ post

theorem not_bnot_true {b : Bool} (h : ¬ ((!b) = true)) : b = true := by
  cases b <;> simp_all

theorem cavityStepProblem_none_iff (pre post : List (List Nat)) (v : Nat) :
    cavityStepProblem pre post v = none ↔ StepChecks pre post v := by
  unfold cavityStepProblem
  dsimp only
  constructor
  · intro h
    split at h
    · cases h
    rename_i h1
    split at h
    · cases h
    rename_i h0
    split at h
    · cases h
    rename_i h2
    split at h
    · cases h
    rename_i h3
    split at h
    · cases h
    rename_i h4
    split at h
    · cases h
    rename_i h5
    split at h
    · cases h
    rename_i h6
    have h2 := List.all_eq_true.1 (not_bnot_true h2)
    have h3 := (nodupB_iff _).1 (not_bnot_true h3)
    have h4 := List.all_eq_true.1 (not_bnot_true h4)
    have h5 := List.all_eq_true.1 (not_bnot_true h5)
    have h6 := Bool.and_eq_true_iff.1 (not_bnot_true h6)
    have h6a := List.all_eq_true.1 h6.1
    have h6b := List.all_eq_true.1 h6.2
    refine ⟨by simpa using h1, by simpa using h0, fun c hc => by simpa using h2 c hc, h3,
      ?_, ?_, fun x hx => List.contains_iff_mem.1 (h6a x hx),
      fun x hx => List.contains_iff_mem.1 (h6b x hx)⟩
    · intro f hf
      have := h4 f hf
      unfold facetCount
      simpa using this
    · intro f hf
      have := h5 f hf
      unfold facetCount
      simpa using this
  · intro k
    have b2 : (stepCreated pre post).all (·.contains v) = true :=
      List.all_eq_true.2 (fun c hc => by simpa using k.new_contains c hc)
    have b3 : nodupB (stepLink pre post v) = true := (nodupB_iff _).2 k.link_nodup
    have b4 : (cavityBoundary (stepRemoved pre post)).all
        (fun f => (stepLink pre post v).contains f || (cellFacets pre).count f == 1) = true :=
      List.all_eq_true.2 (fun f hf => by simpa [facetCount] using k.boundary_covered f hf)
    have b5 : (stepLink pre post v).all (fun f => (cavityBoundary (stepRemoved pre post)).contains f
        || ((cellFacets pre).count f == 1 && (cellFacets (stepRemoved pre post)).count f == 0))
        = true :=
      List.all_eq_true.2 (fun f hf => by simpa [facetCount] using k.link_justified f hf)
    have b6a : post.all
        (cavityInsertWith pre (stepRemoved pre post) (stepLink pre post v) v).contains = true :=
      List.all_eq_true.2 (fun x hx => List.contains_iff_mem.2 (k.post_sub x hx))
    have b6b : (cavityInsertWith pre (stepRemoved pre post) (stepLink pre post v) v).all
        post.contains = true :=
      List.all_eq_true.2 (fun x hx => List.contains_iff_mem.2 (k.sub_post x hx))
    rw [if_neg (by simpa using k.fresh), if_neg (by simpa using k.created), b2, b3, b4, b5, b6a, b6b]
    rfl

theorem mem_stepRemoved {pre post : List (List Nat)} {c : List Nat} :
    c ∈ stepRemoved pre post ↔ c ∈ pre ∧ c ∉ post := by
  simp [stepRemoved]

theorem mem_stepCreated {pre post : List (List Nat)} {c : List Nat} :
    c ∈ stepCreated pre post ↔ c ∈ post ∧ c ∉ pre := by
  simp [stepCreated]

/-- what a legal cavity / hull-extension step from `pre` to `post` with removed region `C` and
coned facets `F` is -/
structure CavityStepSpec (pre post : List (List Nat)) (v : Nat) (C F : List (List Nat)) : Prop where
  removed_sub : ∀ c ∈ C, c ∈ pre
  removed_gone : ∀ c ∈ C, c ∉ post
  fresh : ∀ c ∈ pre, v ∉ c
  created : F ≠ []
  new_contains : ∀ x ∈ post, x ∉ pre → v ∈ x
  link_nodup : F.Nodup
  link_fresh : ∀ f ∈ F, v ∉ f
  boundary_covered : ∀ f ∈ cavityBoundary C, f ∈ F ∨ facetCount pre f = 1
  link_justified : ∀ f ∈ F, f ∈ cavityBoundary C ∨ (facetCount pre f = 1 ∧ facetCount C f = 0)
  same_cells : ∀ x, x ∈ post ↔ x ∈ cavityInsertWith pre C F v

/-- **soundness of the executable check**, with the reconstructed `C` and `F` -/
theorem cavityStepProblem_none_spec {pre post : List (List Nat)} {v : Nat}
    (h : cavityStepProblem pre post v = none) :
    CavityStepSpec pre post v (stepRemoved pre post) (stepLink pre post v) := by
  have k := (cavityStepProblem_none_iff pre post v).1 h
  refine ⟨fun c hc => (mem_stepRemoved.1 hc).1, fun c hc => (mem_stepRemoved.1 hc).2, k.fresh, ?_,
    fun x hx hn => k.new_contains x (mem_stepCreated.2 ⟨hx, hn⟩), k.link_nodup, ?_,
    k.boundary_covered, k.link_justified, fun x => ⟨k.post_sub x, k.sub_post x⟩⟩
  · intro e
    apply k.created
    unfold stepLink at e
    exact List.map_eq_nil_iff.1 e
  · intro f hf
    unfold stepLink at hf
    obtain ⟨c, _, rfl⟩ := List.mem_map.1 hf
    exact not_mem_without_self c v

/-- **soundness of the executable check**: a step that passes is a cavity step — there are a
removed region `C ⊆ pre` and facets `F` such that `post` is, as a set of cells, the cavity
insertion of `v` into `pre`; every new cell contains `v`, no old cell does, and the coned facets are
boundary facets of `C` or hull facets of kept cells -/
theorem cavityStepProblem_none_sound {pre post : List (List Nat)} {v : Nat}
    (h : cavityStepProblem pre post v = none) :
    ∃ C F, (∀ c ∈ C, c ∈ pre) ∧
      (∀ x, x ∈ post ↔ x ∈ cavityInsertWith pre C F v) ∧
      (∀ x ∈ post, x ∉ pre → v ∈ x) ∧ (∀ c ∈ pre, v ∉ c) ∧ F ≠ [] ∧ F.Nodup ∧
      (∀ f ∈ cavityBoundary C, f ∈ F ∨ facetCount pre f = 1) ∧
      (∀ f ∈ F, f ∈ cavityBoundary C ∨ (facetCount pre f = 1 ∧ facetCount C f = 0)) := by
  have k := cavityStepProblem_none_spec h
  exact ⟨_, _, k.removed_sub, k.same_cells, k.new_contains, k.fresh, k.created, k.link_nodup,
    k.boundary_covered, k.link_justified⟩

/-- end to end: a step that passes the check keeps every facet not containing `v` at degree ≤ 2 -/
theorem cavityStep_facet_degree_le_two {pre post : List (List Nat)} {v : Nat}
    (h : cavityStepProblem pre post v = none) (hpre : pre.Nodup) (hpost : post.Nodup)
    (hs : ∀ c ∈ post, c.Pairwise (· < ·)) (h2 : ∀ f, facetCount pre f ≤ 2) {f : List Nat}
    (hvf : v ∉ f) : facetCount post f ≤ 2 := by
  have k := cavityStepProblem_none_spec h
  have hC : (stepRemoved pre post).Nodup := List.Nodup.sublist List.filter_sublist hpre
  have hLs : ∀ g ∈ stepLink pre post v, g.Pairwise (· < ·) := by
    intro g hg
    unfold stepLink at hg
    obtain ⟨c, hc, rfl⟩ := List.mem_map.1 hg
    exact without_lt_sorted (hs c (mem_stepCreated.1 hc).1) v
  have hins := cavity_nodup (stepRemoved pre post) hpre k.link_nodup hLs k.fresh
  have hperm : post.Perm (cavityInsertWith pre (stepRemoved pre post) (stepLink pre post v) v) :=
    (List.perm_ext_iff_of_nodup hpost hins).2 k.same_cells
  rw [facetCount_perm hperm f]
  refine cavity_facet_degree_le_two_with hpre hC k.removed_sub k.link_nodup hLs k.link_fresh ?_ h2 hvf
  intro g hg
  rcases k.link_justified g hg with hb | ⟨h1, _⟩
  · exact Or.inl hb
  · exact Or.inr (by omega)

theorem cavityBoundary_mem_perm {C' C : List (List Nat)} (h : C'.Perm C) (f : List Nat) :
    f ∈ cavityBoundary C' ↔ f ∈ cavityBoundary C := by
  rw [mem_cavityBoundary, mem_cavityBoundary, facetCount_perm h f]

/-- **completeness of the executable check**: every cavity insertion whose coned facets are
boundary facets of the removed region or hull facets of kept cells, and which cones or drops (as a
hull facet) every boundary facet of the removed region, passes the check.  Together with
`cavityStepProblem_none_spec` the check accepts exactly the legal steps. -/
theorem cavityStepProblem_complete {pre C F : List (List Nat)} {v : Nat} (hnd : pre.Nodup)
    (hC : C.Nodup) (hsub : ∀ c ∈ C, c ∈ pre) (hfresh : ∀ c ∈ pre, v ∉ c) (hF : F.Nodup)
    (hFne : F ≠ []) (hFs : ∀ f ∈ F, f.Pairwise (· < ·)) (hvF : ∀ f ∈ F, v ∉ f)
    (hcov : ∀ f ∈ cavityBoundary C, f ∈ F ∨ facetCount pre f = 1)
    (hjust : ∀ f ∈ F, f ∈ cavityBoundary C ∨ (facetCount pre f = 1 ∧ facetCount C f = 0)) :
    cavityStepProblem pre (cavityInsertWith pre C F v) v = none := by
  have hpost : ∀ c ∈ pre, (c ∈ cavityInsertWith pre C F v ↔ c ∉ C) := by
    intro c hc
    rw [cavity_mem]
    constructor
    · rintro (h | ⟨f, _, rfl⟩)
      · exact h.2
      · exact absurd (self_mem_coneCell v f) (hfresh _ hc)
    · exact fun h => Or.inl ⟨hc, h⟩
  have e1 : stepRemoved pre (cavityInsertWith pre C F v) = pre.filter (fun c => C.contains c) := by
    unfold stepRemoved
    apply List.filter_congr
    intro c hc
    by_cases hm : c ∈ C
    · have : c ∉ cavityInsertWith pre C F v := fun h => (hpost c hc).1 h hm
      simp [hm, this]
    · have : c ∈ cavityInsertWith pre C F v := (hpost c hc).2 hm
      simp [hm, this]
  have p1 : (stepRemoved pre (cavityInsertWith pre C F v)).Perm C :=
    e1.symm ▸ filter_contains_perm hnd hC hsub
  have e2 : stepCreated pre (cavityInsertWith pre C F v) = F.map (coneCell v) := by
    unfold stepCreated cavityInsertWith
    rw [List.filter_append]
    have a1 : (pre.filter (fun c => !C.contains c)).filter (fun c => !pre.contains c) = [] := by
      rw [List.filter_eq_nil_iff]
      intro a ha
      simp [(List.mem_filter.1 ha).1]
    have a2 : (F.map (coneCell v)).filter (fun c => !pre.contains c) = F.map (coneCell v) := by
      rw [List.filter_eq_self]
      intro a ha
      obtain ⟨f, _, rfl⟩ := List.mem_map.1 ha
      have : coneCell v f ∉ pre := fun h => hfresh _ h (self_mem_coneCell v f)
      simp [this]
    rw [a1, a2, List.nil_append]
  have e3 : stepLink pre (cavityInsertWith pre C F v) v = F := by
    unfold stepLink
    rw [e2, List.map_map]
    have : ∀ f ∈ F, ((fun c => without c v) ∘ coneCell v) f = id f := fun f hf =>
      without_coneCell_self (lt_sorted_le (hFs f hf)) (hvF f hf)
    rw [List.map_congr_left this, List.map_id]
  have hset : ∀ x, x ∈ cavityInsertWith pre C F v ↔
      x ∈ cavityInsertWith pre (stepRemoved pre (cavityInsertWith pre C F v)) F v := by
    intro x
    rw [cavity_mem, cavity_mem, p1.mem_iff]
  rw [cavityStepProblem_none_iff]
  refine ⟨hfresh, ?_, ?_, e3.symm ▸ hF, ?_, ?_, ?_, ?_⟩
  · rw [e2]
    exact fun e => hFne (List.map_eq_nil_iff.1 e)
  · rw [e2]
    intro c hc
    obtain ⟨f, _, rfl⟩ := List.mem_map.1 hc
    exact self_mem_coneCell v f
  · rw [e3]
    intro f hf
    exact hcov f ((cavityBoundary_mem_perm p1 f).1 hf)
  · rw [e3]
    intro f hf
    rcases hjust f hf with h | h
    · exact Or.inl ((cavityBoundary_mem_perm p1 f).2 h)
    · exact Or.inr ⟨h.1, (facetCount_perm p1 f).trans h.2⟩
  · rw [e3]
    exact fun x hx => (hset x).1 hx
  · rw [e3]
    exact fun x hx => (hset x).2 hx

/-- interior instance: every cavity insertion over the boundary of a removed region that has a
boundary passes the check -/
theorem cavityStepProblem_complete_interior {pre C : List (List Nat)} {v : Nat} (hnd : pre.Nodup)
    (hs : ∀ c ∈ pre, c.Pairwise (· < ·)) (hC : C.Nodup) (hsub : ∀ c ∈ C, c ∈ pre)
    (hfresh : ∀ c ∈ pre, v ∉ c) (hB : cavityBoundary C ≠ []) :
    cavityStepProblem pre (cavityInsert pre C v) v = none :=
  cavityStepProblem_complete hnd hC hsub hfresh (cavityBoundary_nodup C) hB
    (cavityBoundary_lt_sorted (fun c hc => hs c (hsub c hc)))
    (cavityBoundary_fresh (fun c hc => hfresh c (hsub c hc))) (fun _ hf => Or.inl hf)
    (fun _ hf => Or.inl hf)

/-! ### §c7 non-vacuity -/

/-- 2-D, interior point: `4` inserted into the two triangles `[0,1,2]`, `[1,2,3]`, both in conflict:
four cone cells over the four boundary edges; the check accepts the step; the link of `4` is the
boundary of the removed region -/
theorem ex_cavity_2d :
    cavityBoundary [[0, 1, 2], [1, 2, 3]] = [[0, 2], [0, 1], [2, 3], [1, 3]] ∧
    cavityInsert [[0, 1, 2], [1, 2, 3]] [[0, 1, 2], [1, 2, 3]] 4 =
      [[0, 2, 4], [0, 1, 4], [2, 3, 4], [1, 3, 4]] ∧
    cavityStepProblem [[0, 1, 2], [1, 2, 3]] [[0, 2, 4], [0, 1, 4], [2, 3, 4], [1, 3, 4]] 4 = none ∧
    linkOf [[0, 2, 4], [0, 1, 4], [2, 3, 4], [1, 3, 4]] 4 = [[0, 2], [0, 1], [2, 3], [1, 3]] := by
  decide

/-- swallowed vertex: the fan of three triangles around `9` inside `[0,1,2]`; the conflict region
is the whole star of `9`, so `9` is in no cell afterwards although the step is a legal cavity step
(instance of `cavity_swallowed_vertex_isolated`) -/
theorem ex_cavity_swallowed :
    cavityInsert [[0, 1, 9], [1, 2, 9], [0, 2, 9]] [[0, 1, 9], [1, 2, 9], [0, 2, 9]] 10 =
      [[0, 1, 10], [1, 2, 10], [0, 2, 10]] ∧
    cavityStepProblem [[0, 1, 9], [1, 2, 9], [0, 2, 9]] [[0, 1, 10], [1, 2, 10], [0, 2, 10]] 10
      = none ∧
    (∀ x ∈ cavityInsert [[0, 1, 9], [1, 2, 9], [0, 2, 9]] [[0, 1, 9], [1, 2, 9], [0, 2, 9]] 10,
      9 ∉ x) ∧
    9 ∉ vertexSet (cavityInsert [[0, 1, 9], [1, 2, 9], [0, 2, 9]] [[0, 1, 9], [1, 2, 9], [0, 2, 9]] 10)
      := by
  decide

/-- the same conclusion obtained from the general theorem -/
example : ∀ x ∈ cavityInsert [[0, 1, 9], [1, 2, 9], [0, 2, 9]] [[0, 1, 9], [1, 2, 9], [0, 2, 9]] 10,
    9 ∉ x :=
  cavity_swallowed_vertex_isolated _ _ _ (by decide) (by decide) (by decide)

/-- hull extension: `3` outside `[0,1,2]` seeing the edge `[1,2]`: nothing removed, one cone -/
theorem ex_cavity_hull :
    cavityInsertWith [[0, 1, 2]] [] [[1, 2]] 3 = [[0, 1, 2], [1, 2, 3]] ∧
    cavityStepProblem [[0, 1, 2]] [[0, 1, 2], [1, 2, 3]] 3 = none := by
  decide

/-- hull extension with a non-empty conflict region: `4` outside, in conflict with `[1,2,3]`, sees
the hull edge `[2,3]`: the boundary edge `[2,3]` of the removed region disappears, `[1,2]` and
`[1,3]` are coned -/
theorem ex_cavity_hull_conflict :
    cavityStepProblem [[0, 1, 2], [1, 2, 3]] [[0, 1, 2], [1, 2, 4], [1, 3, 4]] 4 = none := by
  decide

/-- 3-D interior: two tetrahedra in conflict, a third kept; degrees of the facets are as
`cavity_facet_degree` says -/
theorem ex_cavity_3d :
    cavityInsert [[0, 1, 2, 3], [1, 2, 3, 4], [0, 1, 2, 5]] [[0, 1, 2, 3], [1, 2, 3, 4]] 7 =
      [[0, 1, 2, 5], [0, 2, 3, 7], [0, 1, 3, 7], [0, 1, 2, 7], [2, 3, 4, 7], [1, 3, 4, 7],
        [1, 2, 4, 7]] ∧
    cavityStepProblem [[0, 1, 2, 3], [1, 2, 3, 4], [0, 1, 2, 5]]
      [[0, 1, 2, 5], [0, 2, 3, 7], [0, 1, 3, 7], [0, 1, 2, 7], [2, 3, 4, 7], [1, 3, 4, 7],
        [1, 2, 4, 7]] 7 = none := by
  decide

/-- negative: the cell `[1,2,3]` is dropped but its interior boundary edge `[1,2]` is not coned -/
theorem ex_cavity_bad_uncovered :
    (cavityStepProblem [[0, 1, 2], [1, 2, 3]] [[0, 1, 2], [1, 3, 4], [2, 3, 4]] 4).isSome = true ∧
    (cavityStepProblem [[0, 1, 2], [1, 2, 3]] [[0, 1, 2]] 4).isSome = true := by
  decide

/-- negative: a cone over an interior edge of kept cells (`[1,2]` has degree 2 and nothing was
removed); a created cell without the new vertex; a vertex that is not new; nothing created -/
theorem ex_cavity_bad_other :
    (cavityStepProblem [[0, 1, 2], [1, 2, 3]] [[0, 1, 2], [1, 2, 3], [1, 2, 4]] 4).isSome = true ∧
    (cavityStepProblem [[0, 1, 2]] [[0, 1, 2], [1, 2, 3], [0, 1, 5]] 3).isSome = true ∧
    (cavityStepProblem [[0, 1, 2]] [[0, 1, 2], [1, 2, 3]] 2).isSome = true ∧
    (cavityStepProblem [[0, 1, 2]] [[0, 1, 2]] 3).isSome = true := by
  decide

end DM.C02
