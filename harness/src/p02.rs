//! C02 — after every insert / insert_with_statistics the state is exported and judged (K3).
use crate::common::{Out, Rng};
use crate::gens;
use crate::hist::{self, World};
use crate::Cfg;

fn history<const D: usize>(hid: usize, rng: &mut Rng, out: &mut Out, steps: usize) {
    let g = [1usize, 1, 0, 2][rng.below(4) as usize];
    let mut w: World<D> = if rng.chance(1, 2) {
        hist::start_empty::<D>(g)
    } else {
        let np = D + 1 + rng.below(5) as usize;
        let ps = gens::point_set(rng, D, np);
        match hist::start_built::<D>(&ps.pts, g, rng) {
            Some(w) => w,
            None => hist::start_empty::<D>(g),
        }
    };
    // collinear / coplanar bootstrap prefix now and then
    let degenerate_prefix = w.dt.number_of_vertices() == 0 && rng.chance(1, 3);
    let mut pol = String::from("default");
    for s in 0..steps {
        if rng.chance(1, 6) {
            pol = w.set_policies(rng);
        }
        let (p, class) = if degenerate_prefix && s < D + 1 {
            let mut p = [0.0f64; D];
            p[0] = s as f64;
            (p, "collinear_prefix")
        } else {
            w.pick_point(rng, 8)
        };
        let with_stats = rng.chance(1, 3);
        let count_before = w.dt.number_of_vertices();
        let (obs, inserted) = w.do_insert(p, with_stats, rng);
        let _ = count_before;
        // the per-insertion Delaunay check (EveryN(1)) certifies Level 4 on a reported insertion
        let due = inserted && w.check_on && w.dt.number_of_cells() > 0;
        let args = format!("{} class={class} pol={pol} stats={}", w.expect_args(due), with_stats as u8);
        w.emit_state(&format!("h{D}_{hid}_{s}"), "insert", &args, &obs, out, false);
        if w.dt.number_of_cells() > 0 && w.dt.as_triangulation().is_valid().is_err() {
            break; // the violation has been reported for this state; later states would only repeat it
        }
    }
}

/// stratified sweep: every (topology guarantee, repair policy) pair meets every degenerate point
/// class (on a hull facet's hyperplane outside the facet, collinear beyond a vertex, midpoints),
/// which random histories combine too rarely
fn sweep<const D: usize>(rng: &mut Rng, out: &mut Out, reps: usize) {
    use delaunay::core::delaunay_triangulation::{DelaunayCheckPolicy, DelaunayRepairPolicy};
    use delaunay::core::triangulation::ValidationPolicy;
    let n2 = std::num::NonZeroUsize::new(2).unwrap();
    let mut n = 0usize;
    for g in 0..3usize {
        for rpi in 0..3usize {
            for (class, vpi) in [(10u64, 0usize), (10, 1), (10, 2), (11, 0), (11, 1), (11, 2), (5, 0), (5, 1), (5, 2)] {
                for rep in 0..reps {
                    n += 1;
                    let np = D + 1 + rng.below(3) as usize;
                    let ps = gens::point_set(rng, D, np);
                    let Some(mut w): Option<World<D>> = hist::start_built::<D>(&ps.pts, g, rng) else { continue };
                    if w.dt.number_of_cells() == 0 { continue; }
                    let vp = [ValidationPolicy::OnSuspicion, ValidationPolicy::Never, ValidationPolicy::Always][vpi];
                    let rp = [DelaunayRepairPolicy::Never, DelaunayRepairPolicy::EveryInsertion, DelaunayRepairPolicy::EveryN(n2)][rpi];
                    let _ = crate::common::catch(|| w.dt.set_validation_policy(vp));
                    w.dt.set_delaunay_repair_policy(rp);
                    w.dt.set_delaunay_check_policy(DelaunayCheckPolicy::EndOnly);
                    w.check_on = false;
                    w.repair_on = rpi != 0;
                    let pol = format!("{vp:?}/{rp:?}/EndOnly").replace(' ', "");
                    for s in 0..1 {
                        let (p, cname) = w.pick_point_class(rng, 8, class);
                        let with_stats = rng.chance(1, 2);
                        let (obs, _inserted) = w.do_insert(p, with_stats, rng);
                        let args = format!("{} class={cname} pol={pol} stats={}", w.expect_args(false), with_stats as u8);
                        w.emit_state(&format!("sw{D}_{g}_{rpi}_{class}_{vpi}_{rep}_{s}"), "insert", &args, &obs, out, false);
                        if w.dt.number_of_cells() > 0 && w.dt.as_triangulation().is_valid().is_err() { break; }
                    }
                }
            }
        }
    }
    let _ = n;
}

/// tight clusters: three or four collinear interior points spaced 2^-k apart (far above the 1e-10
/// duplicate tolerance, far below the extent): the cells around the middle one are slivers whose
/// in-sphere determinants drown in the fast kernel's tolerance, so a conflict region can swallow
/// every cell of an existing vertex.  Every guarantee x validation policy x repair policy, both
/// insertion APIs, the state judged after every call.
fn cluster_sweep<const D: usize>(rng: &mut Rng, out: &mut Out, reps: usize) {
    use delaunay::core::delaunay_triangulation::{DelaunayCheckPolicy, DelaunayRepairPolicy};
    use delaunay::core::triangulation::ValidationPolicy;
    for g in 0..3usize {
        for vpi in 0..3usize {
            for rpi in 0..2usize {
                for rep in 0..reps {
                    let k = [20i32, 14, 17, 23, 26][(g + vpi + rpi + rep) % 5];
                    let delta = 2f64.powi(-k);
                    let np = D + 1 + rng.below(3) as usize;
                    let ps = gens::point_set(rng, D, np);
                    let Some(mut w): Option<World<D>> = hist::start_built::<D>(&ps.pts, g, rng) else { continue };
                    if w.dt.number_of_cells() == 0 { continue; }
                    let vp = [ValidationPolicy::OnSuspicion, ValidationPolicy::Never, ValidationPolicy::Always][vpi];
                    let rp = [DelaunayRepairPolicy::EveryInsertion, DelaunayRepairPolicy::Never][rpi];
                    let _ = crate::common::catch(|| w.dt.set_validation_policy(vp));
                    w.dt.set_delaunay_repair_policy(rp);
                    w.dt.set_delaunay_check_policy(DelaunayCheckPolicy::EndOnly);
                    w.check_on = false;
                    w.repair_on = rpi == 0;
                    let pol = format!("{vp:?}/{rp:?}/EndOnly").replace(' ', "");
                    // an interior dyadic point: average of four live vertices
                    let (u, _) = w.pick_point_class(rng, 8, 6);
                    let ax = rng.below(D as u64) as usize;
                    let at = |m: f64| { let mut q = u; q[ax] += m * delta; q };
                    let seq: Vec<[f64; D]> = if rep % 2 == 0 { vec![at(-1.0), at(0.0), at(1.0), at(2.0)] } else { vec![at(0.0), at(1.0), at(-1.0), at(-2.0)] };
                    for (s, p) in seq.iter().enumerate() {
                        let with_stats = (s + rep) % 2 == 1;
                        let (obs, _inserted) = w.do_insert(*p, with_stats, rng);
                        let args = format!("{} class=tight_cluster pol={pol} stats={}", w.expect_args(false), with_stats as u8);
                        w.emit_state(&format!("tc{D}_{g}_{vpi}_{rpi}_{rep}_{s}"), "insert", &args, &obs, out, false);
                        if w.dt.number_of_cells() > 0 && w.dt.as_triangulation().is_valid().is_err() { break; }
                    }
                }
            }
        }
    }
}

/// repair policy `EveryN(n)`: small integer lattice points inserted one at a time (both APIs).  On
/// such degenerate input the scheduled repair or its post-steps fail now and then; whatever the call
/// reports, the state afterwards is judged (and a failed call must have left it untouched).
fn everyn_sweep<const D: usize>(rng: &mut Rng, out: &mut Out, reps: usize) {
    use delaunay::core::delaunay_triangulation::{DelaunayCheckPolicy, DelaunayRepairPolicy};
    for n in [2usize, 3] {
        for rep in 0..reps {
            let mut w: World<D> = hist::start_empty::<D>(1);
            let nn = std::num::NonZeroUsize::new(n).unwrap();
            w.dt.set_delaunay_repair_policy(DelaunayRepairPolicy::EveryN(nn));
            w.dt.set_delaunay_check_policy(DelaunayCheckPolicy::EndOnly);
            w.repair_on = true;
            let pol = format!("OnSuspicion/EveryN({n})/EndOnly");
            let side = if D <= 3 { 4 } else { 3 };
            for s in 0..(if D <= 3 { 16 } else { 12 }) {
                let mut p = [0.0f64; D];
                for x in p.iter_mut() { *x = rng.range(0, side - 1) as f64; }
                let with_stats = (s + rep) % 2 == 0;
                let (obs, _ins) = w.do_insert(p, with_stats, rng);
                let args = format!("{} class=lattice_everyn pol={pol} stats={}", w.expect_args(false), with_stats as u8);
                w.emit_state(&format!("en{D}_{n}_{rep}_{s}"), "insert", &args, &obs, out, false);
                if w.dt.number_of_cells() > 0 && w.dt.as_triangulation().is_valid().is_err() { break; }
            }
        }
    }
}

/// bootstrap with a degenerate (D+1)-th point: D affinely independent points, then a point in
/// their affine hull (the initial simplex cannot be built), then completing points - for every
/// guarantee and with the Delaunay-layer snapshot on (repair EveryInsertion) and off (Never)
fn boot_sweep<const D: usize>(rng: &mut Rng, out: &mut Out) {
    use delaunay::core::delaunay_triangulation::{DelaunayCheckPolicy, DelaunayRepairPolicy};
    for g in 0..3usize {
        for rpi in 0..2usize {
            for stats in [false, true] {
                let mut w: World<D> = hist::start_empty::<D>(g);
                let rp = [DelaunayRepairPolicy::Never, DelaunayRepairPolicy::EveryInsertion][rpi];
                w.dt.set_delaunay_repair_policy(rp);
                w.dt.set_delaunay_check_policy(DelaunayCheckPolicy::EndOnly);
                w.repair_on = rpi != 0;
                let pol = format!("OnSuspicion/{rp:?}/EndOnly").replace(' ', "");
                // D independent points: origin and D-1 scaled unit vectors
                let mut pts: Vec<[f64; D]> = vec![[0.0; D]];
                for a in 0..D - 1 { let mut p = [0.0; D]; p[a] = (2 + a) as f64; pts.push(p); }
                // in their affine hull: an affine combination with coefficients (-1, 1, 1, 0, ...)
                let mut deg = [0.0; D];
                let j = if pts.len() > 2 { 2 } else { 1 };
                for i in 0..D { deg[i] = pts[1][i] + pts[j][i] - pts[0][i]; }
                pts.push(deg);
                // completing point off the hull, then one more
                let mut top = [1.0; D]; top[D - 1] = 3.0;
                pts.push(top);
                let mut more = [0.5; D]; more[0] = 1.25;
                pts.push(more);
                let classes = ["boot", "boot", "boot", "boot", "boot"];
                for (s, p) in pts.iter().enumerate() {
                    let class = if s == D { "boot_degenerate" } else if s > D { "boot_completing" } else { classes[s.min(4)] };
                    let (obs, _ins) = w.do_insert(*p, stats, rng);
                    let args = format!("{} class={class} pol={pol} stats={}", w.expect_args(false), stats as u8);
                    w.emit_state(&format!("bs{D}_{g}_{rpi}_{}_{s}", stats as u8), "insert", &args, &obs, out, false);
                }
            }
        }
    }
}

pub fn run(cfg: &Cfg, rng: &mut Rng, out: &mut Out) {
    let thorough = cfg.tier == "thorough";
    let nh = if thorough { 40 } else { 6 };
    for h in 0..nh {
        history::<2>(h, rng, out, if thorough { 30 } else { 14 });
        history::<3>(h, rng, out, if thorough { 24 } else { 12 });
        if h % 2 == 0 || thorough {
            history::<4>(h, rng, out, if thorough { 16 } else { 10 });
            history::<5>(h, rng, out, if thorough { 12 } else { 9 });
        }
    }
    boot_sweep::<2>(rng, out);
    boot_sweep::<3>(rng, out);
    boot_sweep::<4>(rng, out);
    boot_sweep::<5>(rng, out);
    let reps = if thorough { 4 } else { 1 };
    everyn_sweep::<3>(rng, out, 3 * reps);
    everyn_sweep::<4>(rng, out, 2 * reps);
    everyn_sweep::<5>(rng, out, reps);
    cluster_sweep::<2>(rng, out, 2 * reps);
    cluster_sweep::<3>(rng, out, 2 * reps);
    cluster_sweep::<4>(rng, out, reps);
    sweep::<2>(rng, out, reps);
    sweep::<3>(rng, out, reps);
    sweep::<4>(rng, out, reps);
    sweep::<5>(rng, out, reps);
}
