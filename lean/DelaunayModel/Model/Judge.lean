/-
Model/Judge.lean — the exact oracle applied to an exported complex, with the predicates'
documented tolerance band taken into account: a geometric violation is *strict* only when the
exact determinant lies beyond `tolerance + rounding allowance` (Model/Pred `expectedQ`), so library
verdicts inside the band are never second-guessed.
-/
import DelaunayModel.Model.Certify
import DelaunayModel.Model.Pred
namespace DM

def cellDPts (K : Cx) (c : Cell) : Option (List DPt) :=
  c.vs.mapM (fun v => (K.vtxById v).bind (·.pt))

/-- is `vid` the apex of a facet-neighbour of `c` (the k=2 configuration)? -/
def isNbrApex (K : Cx) (c : Cell) (vid : Nat) : Bool :=
  (List.range c.vs.length).any (fun i => match nbSlot c i with
    | none => false
    | some k => match K.cellById k with
      | none => false
      | some n => n.vs.contains vid)

structure SphereViol where
  cell : Nat
  vert : Nat
  strict : Bool      -- beyond the tolerance band
  nbrApex : Bool
  deriving Repr

def sphereViols (K : Cx) : List SphereViol :=
  (sphereViolations K).filterMap (fun (cid, vid) =>
    match K.cellById cid, (K.vtxById vid).bind (·.pt) with
    | some c, some q =>
      match cellDPts K c with
      | some s =>
        let e := predExpect K.D s q
        some { cell := cid, vert := vid, strict := e.insphere == some (some 1), nbrApex := isNbrApex K c vid }
      | none => none
    | _, _ => none)

/-- strict convexity violations: vertex decidably beyond a boundary facet -/
def strictConvexViols (K : Cx) : List (Nat × Nat × Nat) :=
  (convexityViolations K).filter (fun (cid, i, vid) =>
    match K.cellById cid, (K.vtxById vid).bind (·.pt) with
    | some c, some q =>
      match cellDPts K c with
      | some s => (predExpect K.D (s.set i q) q).orient.isSome && (predExpect K.D s q).orient.isSome
      | none => false
    | _, _ => false)

/-- cells whose exact orientation is not positive, with whether that is decidable beyond the band -/
def orientIssues (K : Cx) : List (Nat × Int × Bool) :=
  K.cells.filterMap (fun c =>
    match cellDPts K c with
    | none => some (c.id, 0, true)
    | some s =>
      let q := s.headD []
      let e := predExpect K.D s q
      if e.exactOr == 1 then none else some (c.id, e.exactOr, e.orient.isSome))

structure Judgement where
  l1 : Bool
  l2 : Bool
  l3 : Bool            -- at the case's guarantee, without completion-time vertex links
  l3c : Bool           -- with completion-time vertex links
  l3parts : List (String × Bool)
  viols : List SphereViol
  convex : List (Nat × Nat × Nat)
  orientBand : Bool    -- some non-positive cell orientation lies inside the band (undecidable)

def judge (K : Cx) (g : Guarantee) : Judgement :=
  let parts : List (String × Bool) := [
    ("connected", connected K), ("facetDeg", facetDegOk K), ("closedBoundary", closedBoundary K),
    ("ridgeLinks", if g ≥ 1 then ridgeLinksOk K else true),
    ("vertexLinksStrict", if g ≥ 2 then vertexLinksOk K else true),
    ("noIsolated", noIsolated K), ("euler", eulerOk K), ("geomOrient", geomOrientOk K)]
  let l3 := parts.all (·.2)
  let l3c := l3 && (if g ≥ 1 then vertexLinksOk K else true)
  { l1 := checkL1 K, l2 := checkL2 K, l3 := l3, l3c := l3c, l3parts := parts,
    viols := sphereViols K, convex := strictConvexViols K,
    orientBand := K.cells.any (fun c => match cellDPts K c with
      | none => false
      | some s => (predExpect K.D s (s.headD [])).orient.isNone) }

end DM
