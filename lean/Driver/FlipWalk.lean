/-
Driver/FlipWalk.lean — C07, long flip walks (kind `flipw`): only the cell SETS travel.
   cs0 <cells>                         initial cell set, `a,b,c;d,e,f`
   st <name> <R> <I> <post cells>      one successful flip: removed face, inserted face, cell set after
For every step the model's full guard must hold on the previous cell set, the star of the inserted
face afterwards must be exactly the created cells, and the cell set after must equal the bistellar
move applied to the cell set before (theorems flip_* of Props/C07 then apply to the whole walk).
-/
import DelaunayModel.Model.Proto
import DelaunayModel.Model.Flip
import Driver.CxHandlers
open DM

def numsOf (t : String) : List Nat := (t.splitOn ",").filterMap String.toNat?
def cellsOf (t : String) : List (List Nat) := ((t.splitOn ";").filter (· ≠ "")).map (fun x => sortNat (numsOf x))

def sameSets (a b : List (List Nat)) : Bool := a.length == b.length && a.all b.contains && b.all a.contains

def runFlipW (c : Case) : Res :=
  let d := c.argNat "D"
  match (c.recsOf "cs0").head? with
  | some [cs0] =>
    Id.run do
      let mut cells := cellsOf cs0
      let mut bad : List String := []
      let mut n := 0
      let mut kinds : List String := []
      -- records in order: `st` = one modelled step, `rs` = restart from a reported cell set (after
      -- an inverse k = 1 move, whose removed vertex the harness can no longer name)
      for r0 in c.recs do
        match r0 with
        | ["rs", postS] => cells := cellsOf postS
        | ["st", name, rS, iS, postS] =>
          n := n + 1
          if !kinds.contains name then kinds := name :: kinds
          let R := numsOf rS
          let I := numsOf iS
          let post := cellsOf postS
          if bad.length < 4 then
            if !flipGuard d cells R I then
              bad := s!"step {n} ({name}): flip reported Ok but (R={R}, I={I}) is not a legal bistellar move on the previous cell set" :: bad
            else if !insertedFaceNew cells R I then
              bad := s!"step {n} ({name}): flip reported Ok although the inserted face I={I} already existed in a cell outside the removed star (R={R}); afterwards its star is not the set of created cells (non-manifold link)" :: bad
            else if !sameSets (flipCells cells R I) post then
              bad := s!"step {n} ({name}): cells after the flip differ from the bistellar move R={R} I={I} applied to the previous cells" :: bad
          cells := post
        | "st" :: _ => bad := "malformed st record" :: bad
        | _ => pure ()
      for (nm, v) in c.obs do
        if nm == "refused_changed" && v.headD "0" != "0" then
          bad := s!"{v.headD ""} refused flips changed the triangulation" :: bad
      let stats := s!"flipw.D{d}" :: s!"flipw.steps.{if n ≥ 400 then "400+" else if n ≥ 100 then "100+" else "lt100"}" :: kinds.map (fun k => s!"flipw.kind.{k}")
      if !bad.isEmpty then return { status := "ORACLE", detail := " ; ".intercalate bad.reverse, stats := stats }
      return { status := if n == 0 then "skip" else "ok", stats := stats }
  | _ => { status := "DISAGREE", detail := "flipw case without cs0" }
