use delaunay::geometry::traits::coordinate::Coordinate;
use delaunay::core::delaunay_triangulation::{ConstructionOptions, DedupPolicy, InsertionOrderStrategy, RetryPolicy, InitialSimplexStrategy};
use delaunay::core::triangulation::TopologyGuarantee;
use delaunay::core::vertex::Vertex;
use delaunay::geometry::point::Point;
fn main() {
    let pts: Vec<[f64; 3]> = vec![[3.,0.,0.],[2.,1.,2.],[-1.,2.,-2.],[-1.,2.,2.],[1.,-2.,2.],[-2.,-1.,2.],[0.,-3.,0.],[2.,-1.,-2.],[-1.,-2.,-2.],[2.,-1.,2.],[2.,-2.,-1.]];
    let us = ["21a276c4-0bd0-4620-aa74-4f557dd315dd","0cf3b0fc-43bd-4e71-aa6d-cf59ab6b4b21","b09fe126-0bd9-47bc-9664-190ef6d7e524","ae471cd5-5ae6-44ce-a138-c3ebf6739ade","4f16c62b-7318-4fc4-a593-fca5f5ecc9e6","750a5496-694f-41fc-bb84-7f8387e7ab53","b524f00f-9ff8-4aef-a3db-d870d80f90f8","5f14dc8b-0140-4af1-aa2d-1b51f814e103","f47d8b22-9666-42b2-94ca-79fe84d5c417","249a7f86-7b0e-4a69-b534-25c08d398aeb","7c7bedbe-f5e3-4825-80ff-0ed06b207f1f"];
    let vs: Vec<Vertex<f64, i32, 3>> = pts.iter().enumerate().map(|(i, p)| Vertex::new_with_uuid(Point::new(*p), uuid::Uuid::parse_str(us[i]).unwrap(), Some(100 + i as i32))).collect();
    let three = std::num::NonZeroUsize::new(3).unwrap();
    for g in [TopologyGuarantee::Pseudomanifold, TopologyGuarantee::PLManifold] {
        for (rn, rp) in [("debugonly", RetryPolicy::DebugOnlyShuffled { attempts: three, base_seed: None }), ("disabled", RetryPolicy::Disabled)] {
            let o = ConstructionOptions::default().with_dedup_policy(DedupPolicy::Off).with_insertion_order(InsertionOrderStrategy::Morton).with_initial_simplex_strategy(InitialSimplexStrategy::First).with_retry_policy(rp.clone());
            let r = delaunay::core::builder::DelaunayTriangulationBuilder::from_vertices(&vs).topology_guarantee(g).construction_options(o).build::<i32>();
            match r {
                Ok(dt) => println!("{g:?} {rn}: Ok cells={} tri.is_valid={:?} validate={:?}", dt.number_of_cells(), dt.as_triangulation().is_valid().map_err(|e| format!("{e}").chars().take(200).collect::<String>()), dt.validate().map_err(|e| format!("{e}").chars().take(60).collect::<String>())),
                Err(e) => println!("{g:?} {rn}: Err {}", format!("{e}").chars().take(80).collect::<String>()),
            }
        }
    }
}
