//! C14 — determinism (same values ⇒ same cells: twice in one process, in two threads, in a second
//! process) and independence from the caller's listing order for Hilbert / Morton / lexicographic
//! ordering; in general position every strategy / kernel / batch-or-incremental build gives THE
//! Delaunay triangulation (judged by the Lean brute-force set).
use crate::common::{catch, hxs, Ids, Out, Rng};
use crate::gens;
use crate::tri::{self, Opts};
use crate::Cfg;
use delaunay::core::vertex::Vertex;
use delaunay::geometry::point::Point;
use delaunay::geometry::traits::coordinate::Coordinate;

type V<const D: usize> = Vertex<f64, i32, D>;

/// canonical cell signature: sorted list of sorted vertex identities (the input index carried as
/// user data; NOT the coordinates, which a documented degeneracy retry may perturb by 1e-8)
pub fn cell_sig<K, const D: usize>(dt: &delaunay::prelude::DelaunayTriangulation<K, i32, i32, D>) -> String
where K: delaunay::geometry::kernel::Kernel<D, Scalar = f64> {
    let mut cells: Vec<String> = dt.cells().map(|(_, c)| {
        let mut vs: Vec<String> = c.vertices().iter().filter_map(|k| dt.tds().get_vertex_by_key(*k)).map(|v| format!("{:04}", v.data.unwrap_or(-1))).collect();
        vs.sort();
        vs.join("|")
    }).collect();
    cells.sort();
    cells.join(";")
}

fn build_sig<const D: usize>(vs: &[V<D>], opts: &Opts, robust: bool) -> String {
    if robust {
        match tri::build_robust::<D>(vs, 1, opts) { Ok(Ok(dt)) => cell_sig(&dt), Ok(Err(e)) => format!("ERR:{}", tri::err_kind(&e)), Err(m) => format!("PANIC:{m}") }
    } else {
        match tri::build_fast::<D>(vs, 1, opts) { Ok(Ok(dt)) => cell_sig(&dt), Ok(Err(e)) => format!("ERR:{}", tri::err_kind(&e)), Err(m) => format!("PANIC:{m}") }
    }
}

fn mk<const D: usize>(pts: &[Vec<f64>], uu: &[uuid::Uuid]) -> Vec<V<D>> {
    pts.iter().zip(uu.iter()).enumerate().map(|(i, (p, u))| Vertex::new_with_uuid(Point::new(gens::arr::<D>(p)), *u, Some(i as i32))).collect()
}

/// child process entry: `vharness C14 --child <D> <order> <robust> <hex coords...>` prints the signature
pub fn child(extra: &[String]) {
    let d: usize = extra[1].parse().unwrap();
    let order: u8 = extra[2].parse().unwrap();
    let robust = extra[3] == "1";
    let vals: Vec<f64> = extra[4..].iter().map(|h| f64::from_bits(u64::from_str_radix(h, 16).unwrap())).collect();
    let pts: Vec<Vec<f64>> = vals.chunks(d).map(|c| c.to_vec()).collect();
    let mut rng = Rng::new(99);
    let uu: Vec<uuid::Uuid> = pts.iter().map(|_| rng.uuid()).collect();
    let opts = Opts { order, dedup: 0, simplex: 0, retry: 2 };
    let sig = match d {
        2 => build_sig::<2>(&mk::<2>(&pts, &uu), &opts, robust),
        3 => build_sig::<3>(&mk::<3>(&pts, &uu), &opts, robust),
        4 => build_sig::<4>(&mk::<4>(&pts, &uu), &opts, robust),
        _ => build_sig::<5>(&mk::<5>(&pts, &uu), &opts, robust),
    };
    println!("SIG {:016x}", crate::common::fnv(&sig));
}

fn one<const D: usize>(id: &str, rng: &mut Rng, out: &mut Out, with_process: bool) {
    let n = D + 2 + rng.below(match D { 2 => 6, 3 => 5, 4 => 3, _ => 2 }) as usize;
    let ps = gens::point_set(rng, D, n);
    let mut r2 = Rng::new(99);
    let uu: Vec<uuid::Uuid> = ps.pts.iter().map(|_| r2.uuid()).collect();
    let vs = mk::<D>(&ps.pts, &uu);
    let robust = rng.chance(1, 3);
    let mut problems: Vec<String> = Vec::new();
    let mut sig_by_order: Vec<String> = Vec::new();
    for order in 0..4u8 {
        let opts = Opts { order, dedup: 0, simplex: 0, retry: 2 };
        let s1 = build_sig::<D>(&vs, &opts, robust);
        let s2 = build_sig::<D>(&vs, &opts, robust);
        if s1 != s2 { problems.push(format!("order={order}: two builds from the same values in one process differ")); }
        // second thread
        let vs_t = vs.clone();
        let s3 = std::thread::spawn(move || build_sig::<D>(&vs_t, &Opts { order, dedup: 0, simplex: 0, retry: 2 }, robust)).join().unwrap_or_else(|_| "PANIC:thread".into());
        if s1 != s3 { problems.push(format!("order={order}: build in a second thread differs")); }
        // second process
        if with_process && order == 3 {
            let exe = std::env::current_exe().unwrap();
            let mut args: Vec<String> = vec!["C14".into(), "--child".into(), D.to_string(), order.to_string(), (robust as u8).to_string()];
            for p in &ps.pts { for x in p { args.push(crate::common::hx(*x)); } }
            if let Ok(o) = std::process::Command::new(exe).args(&args).output() {
                let txt = String::from_utf8_lossy(&o.stdout).to_string();
                let want = format!("SIG {:016x}", crate::common::fnv(&s1));
                if !txt.contains(&want) { problems.push(format!("order={order}: build in a second process differs ({})", txt.trim())); }
            }
        }
        // listing-order independence for lexicographic / Morton / Hilbert
        if order >= 1 && !s1.starts_with("ERR") {
            let perms = if n <= 5 { 12 } else { 6 };
            for _ in 0..perms {
                let mut idx: Vec<usize> = (0..vs.len()).collect();
                rng.shuffle(&mut idx);
                let pv: Vec<V<D>> = idx.iter().map(|&i| vs[i]).collect();
                let sp = build_sig::<D>(&pv, &opts, robust);
                if sp != s1 { problems.push(format!("order={order}: result depends on the caller's listing order")); break; }
            }
        }
        sig_by_order.push(s1);
    }
    // the exported complex of the Hilbert build is judged by Lean (general position ⇒ THE Delaunay triangulation);
    // all strategies must then agree with it
    let opts = Opts { order: 3, dedup: 0, simplex: 0, retry: 2 };
    let mut ids = Ids::default();
    out.case(id, "cx", &format!("D={D} fam={} gp={} g=1 expect=certified kernel={}", ps.family, ps.gp as u8, if robust { "robust" } else { "fast" }));
    tri::input_lines(&vs, &mut ids, out);
    macro_rules! fin { ($r:expr) => { match $r {
        Ok(Ok(dt)) => { out.obs("result", "ok"); tri::export(&dt, &mut ids, out);
            // uniqueness of the result is only demanded where the floating-point predicates can
            // see the general position: small integer coordinates (every orientation / in-sphere
            // determinant is a non-zero integer, far outside the tolerance band)
            let float_visible_gp = ps.gp && ps.pts.iter().all(|p| p.iter().all(|x| x.fract() == 0.0 && x.abs() <= 64.0));
            if float_visible_gp {
                let base = cell_sig(&dt);
                for (o, s) in sig_by_order.iter().enumerate() { if !s.starts_with("ERR") && *s != base { problems.push(format!("general position: ordering {o} gives a different cell set than Hilbert")); } }
                // incremental build must agree too
                let mut w = crate::hist::start_empty::<D>(1);
                let mut ok = true;
                for v in &vs { if catch(|| w.dt.insert(*v).is_ok()) != Ok(true) { ok = false; } }
                // "every successful, CERTIFIED construction": an incremental result that the
                // library's own validate() does not certify carries no claim (lib.rs documents that
                // incremental insertion may rarely leave a violation for explicit validation to find)
                if ok && w.dt.validate().is_ok() && cell_sig(&w.dt) != base { problems.push("general position: incremental insertion gives a different cell set than batch construction".into()); }
            }
        }
        Ok(Err(e)) => out.obs("result", &format!("err {}", tri::err_kind(&e))),
        Err(m) => out.obs("result", &format!("panic:{m}")),
    } } }
    if robust { fin!(tri::build_robust::<D>(&vs, 1, &opts)) } else { fin!(tri::build_fast::<D>(&vs, 1, &opts)) }
    out.obs("same_vertices", &if problems.is_empty() { "1".to_string() } else { format!("0 {}", problems.join(" / ").replace(' ', "_")) });
    out.end();
}

/// quantisation ties: a few frame points spanning 2^34 and a small cluster (a unit hypercube's
/// corners, cospherical) that falls into ONE cell of the 31-bit Morton/Hilbert grid.  The order of
/// the tied points is then decided by the documented tie-break alone; (a) the ordered VALUE
/// sequence (hook H3) and (b) the built cell set must not depend on the caller's listing order.
fn tie_cluster<const D: usize>(id: &str, rng: &mut Rng, out: &mut Out) {
    use delaunay::core::delaunay_triangulation::{verif_api, InsertionOrderStrategy};
    let big = 4294967296.0f64; // 2^32
    let mut pts: Vec<Vec<f64>> = Vec::new();
    // frame: simplex corners of [-2^32, 3*2^32]^D plus the opposite corner
    pts.push(vec![-big; D]);
    for a in 0..D { let mut p = vec![-big; D]; p[a] = 3.0 * big; pts.push(p); }
    pts.push(vec![3.0 * big; D]);
    // cluster: corners of a unit hypercube at a small integer offset (up to 2^D points, at most 8)
    let off: Vec<f64> = (0..D).map(|_| rng.range(0, 3) as f64).collect();
    let ncube = 1usize << D.min(3);
    for m in 0..ncube {
        let mut p = off.clone();
        for a in 0..D.min(3) { if (m >> a) & 1 == 1 { p[a] += 1.0; } }
        pts.push(p);
    }
    let mut r2 = Rng::new(77);
    let uu: Vec<uuid::Uuid> = pts.iter().map(|_| r2.uuid()).collect();
    let vs = mk::<D>(&pts, &uu);
    let mut problems: Vec<String> = Vec::new();
    let vals = |o: &[V<D>]| -> String { o.iter().map(|v| hxs(v.point().coords())).collect::<Vec<_>>().join(";") };
    for (order, strat) in [(1u8, InsertionOrderStrategy::Lexicographic), (2, InsertionOrderStrategy::Morton), (3, InsertionOrderStrategy::Hilbert)] {
        let base_seq = match catch(|| verif_api::order_vertices(vs.clone(), strat)) { Ok(o) => vals(&o), Err(m) => format!("PANIC:{m}") };
        let opts = Opts { order, dedup: 0, simplex: 0, retry: 1 };
        let base_sig = build_sig::<D>(&vs, &opts, true);
        for _ in 0..6 {
            let mut idx: Vec<usize> = (0..vs.len()).collect();
            rng.shuffle(&mut idx);
            let pv: Vec<V<D>> = idx.iter().map(|&i| vs[i]).collect();
            let seq = match catch(|| verif_api::order_vertices(pv.clone(), strat)) { Ok(o) => vals(&o), Err(m) => format!("PANIC:{m}") };
            if seq != base_seq { problems.push(format!("order={order}: the ordered value sequence depends on the caller's listing order (quantisation ties)")); break; }
            let sp = build_sig::<D>(&pv, &opts, true);
            if sp != base_sig { problems.push(format!("order={order}: the built cell set depends on the caller's listing order (quantisation ties)")); break; }
        }
    }
    out.case(id, "chk", &format!("D={D} what=tie_cluster"));
    for p in &pts { out.line(&format!("p {}", hxs(p))); }
    if !problems.is_empty() { out.obs("fail", &problems.join(" / ")); } else { out.obs("same", "1"); }
    out.end();
}

/// listing-order independence under EVERY option combination (initial-simplex strategy x retry
/// policy x sorted ordering), on inputs where it matters: cocircular / cospherical clusters (the
/// triangulation is not unique, so any dependence on the order of insertion shows) arranged so that
/// the balanced initial-simplex pick (lexicographic minimum, the point farthest from it, ...) is
/// degenerate - the primary attempt fails and the fallback path runs - plus the random families.
/// Outcome class (Ok / Err kind) and cell set must be the same for every listing.
fn listing_sweep<const D: usize>(id: &str, rng: &mut Rng, out: &mut Out, random_family: bool) {
    let pts: Vec<Vec<f64>> = if random_family {
        let n = D + 2 + rng.below(4) as usize;
        gens::point_set(rng, D, n).pts
    } else {
        // a tilted square (cocircular) around (2,1) containing the lexicographic minimum (0,..,0),
        // lifted by one apex per extra dimension; its mirror image through M; and M itself:
        // (0,..,0), its mirror and M are collinear
        let s = 1.0 + rng.below(3) as f64;
        let mut cl: Vec<Vec<f64>> = vec![vec![0.0, 0.0], vec![1.0, 3.0], vec![4.0, 2.0], vec![3.0, -1.0]];
        for p in cl.iter_mut() { p.resize(D, 0.0); }
        for a in 2..D { let mut q = vec![2.0, 1.0]; q.resize(D, 0.0); q[a] = 2.0; cl.push(q); }
        let mut m = vec![12.0, 4.0]; m.resize(D, 0.0); for a in 2..D { m[a] = 6.0; }
        let mut all: Vec<Vec<f64>> = cl.clone();
        for p in &cl { all.push((0..D).map(|a| 2.0 * m[a] - p[a]).collect()); }
        all.push(m);
        for p in all.iter_mut() { for x in p.iter_mut() { *x *= s; } }
        all
    };
    let mut r2 = Rng::new(55);
    let uu: Vec<uuid::Uuid> = pts.iter().map(|_| r2.uuid()).collect();
    let vs = mk::<D>(&pts, &uu);
    let mut problems: Vec<String> = Vec::new();
    let mut nerr = 0usize;
    let mut nok = 0usize;
    for order in 1..4u8 {
        for simplex in 0..2u8 {
            for retry in 0..4u8 {
                let opts = Opts { order, dedup: 0, simplex, retry };
                let base = build_sig::<D>(&vs, &opts, false);
                if base.starts_with("ERR") { nerr += 1; } else { nok += 1; }
                for _ in 0..(if random_family { 3 } else { 6 }) {
                    let mut idx: Vec<usize> = (0..vs.len()).collect();
                    rng.shuffle(&mut idx);
                    let pv: Vec<V<D>> = idx.iter().map(|&i| vs[i]).collect();
                    let sp = build_sig::<D>(&pv, &opts, false);
                    if sp != base {
                        let kind = |s: &str| if s.starts_with("ERR") { "Err" } else { "Ok" };
                        problems.push(format!("{}: the result depends on the caller's listing order ({} vs {})", opts.tag(), kind(&base), kind(&sp)));
                        break;
                    }
                }
            }
        }
    }
    out.case(id, "chk", &format!("D={D} what=listing_sweep fam={} ok={nok} err={nerr}", if random_family { "random" } else { "mirror" }));
    for p in &pts { out.line(&format!("p {}", hxs(p))); }
    if !problems.is_empty() { problems.truncate(4); out.obs("fail", &problems.join(" / ")); } else { out.obs("same", "1"); }
    out.end();
}

pub fn run(cfg: &Cfg, rng: &mut Rng, out: &mut Out) {
    if let Some(i) = cfg.extra.iter().position(|x| x == "--child") { child(&cfg.extra[i..]); std::process::exit(0); }
    let thorough = cfg.tier == "thorough";
    for i in 0..(if thorough { 12 } else { 3 }) {
        tie_cluster::<2>(&format!("tc2_{i}"), rng, out);
        tie_cluster::<3>(&format!("tc3_{i}"), rng, out);
        tie_cluster::<4>(&format!("tc4_{i}"), rng, out);
    }
    for i in 0..(if thorough { 12 } else { 3 }) {
        listing_sweep::<2>(&format!("ls2_{i}"), rng, out, false);
        listing_sweep::<3>(&format!("ls3_{i}"), rng, out, false);
        listing_sweep::<2>(&format!("lr2_{i}"), rng, out, true);
        listing_sweep::<3>(&format!("lr3_{i}"), rng, out, true);
        if i == 0 || thorough { listing_sweep::<4>(&format!("ls4_{i}"), rng, out, false); listing_sweep::<4>(&format!("lr4_{i}"), rng, out, true); }
    }
    let n = if thorough { 300 } else { 72 };
    for i in 0..n {
        let id = format!("n{i}");
        let wp = i % 4 == 0;
        match 2 + (i % 4) {
            2 => one::<2>(&id, rng, out, wp),
            3 => one::<3>(&id, rng, out, wp),
            4 => one::<4>(&id, rng, out, wp),
            _ => one::<5>(&id, rng, out, wp),
        }
    }
}
