/-
Props/C04.lean — property theorems for C04 (a passing Delaunay check means the empty-circumsphere
property really holds).

 * `emptySphere_iff`: the executable brute-force check equals the declarative statement.
 * `k2_symmetric` / `k2_both_positive`: for two cells sharing a facet with apexes on opposite
   sides, the two in-sphere signs are EQUAL; so a genuine facet violation always shows both signs
   positive.  This refutes the comment at flips.rs:1840 ("physically impossible").
 * `filtered_k2_never_fires`: with the both-positive filter on, the k=2 predicate can never report
   a violation on a properly embedded facet pair — in exact arithmetic the filter disables the
   check entirely (finding F1).  `unfiltered_k2_iff`: without it the predicate is exact.
 * `f1_witness`: a concrete 4-D configuration (6 points) that is not Delaunay and that the
   filtered predicate accepts.
Not proved (T3): all local predicates pass ⇒ globally Delaunay (the Delaunay lemma).
-/
import DelaunayModel.Model.Certify
import DelaunayModel.Model.L4
import DelaunayModel.Lemmas.DetBridge
namespace DM.C04

open DM

theorem k2_symmetric {D : Nat} {F : List IPt} {a b : IPt} (hF : F.length = D)
    (hFd : ∀ p ∈ F, p.length = D) (ha : a.length = D) (hb : b.length = D)
    (ho : orientSign (F ++ [a]) = - orientSign (F ++ [b])) :
    insphereSign (F ++ [a]) b = insphereSign (F ++ [b]) a :=
  k2_symmetric_sign hF hFd ha hb ho

/-- a genuine violation across a facet is seen from both sides -/
theorem k2_both_positive {D : Nat} {F : List IPt} {a b : IPt} (hF : F.length = D)
    (hFd : ∀ p ∈ F, p.length = D) (ha : a.length = D) (hb : b.length = D)
    (ho : orientSign (F ++ [a]) = - orientSign (F ++ [b]))
    (hv : insphereSign (F ++ [a]) b > 0) : insphereSign (F ++ [b]) a > 0 := by
  rw [← k2_symmetric hF hFd ha hb ho]; exact hv

/-- with the both-positive filter the k=2 predicate never fires on an embedded facet pair -/
theorem filtered_k2_never_fires {D : Nat} {F : List IPt} {a b : IPt} (hF : F.length = D)
    (hFd : ∀ p ∈ F, p.length = D) (ha : a.length = D) (hb : b.length = D)
    (ho : orientSign (F ++ [a]) = - orientSign (F ++ [b])) :
    k2Violates true (insphereSign (F ++ [a]) b) (insphereSign (F ++ [b]) a) = false := by
  rw [← k2_symmetric hF hFd ha hb ho]
  unfold k2Violates
  by_cases h : insphereSign (F ++ [a]) b > 0 <;> simp [h]

/-- without the filter the k=2 predicate is exactly "the opposite apex is strictly inside" -/
theorem unfiltered_k2_iff {D : Nat} {F : List IPt} {a b : IPt} (hF : F.length = D)
    (hFd : ∀ p ∈ F, p.length = D) (ha : a.length = D) (hb : b.length = D)
    (ho : orientSign (F ++ [a]) = - orientSign (F ++ [b])) :
    k2Violates false (insphereSign (F ++ [a]) b) (insphereSign (F ++ [b]) a) = true ↔
      insphereSign (F ++ [a]) b > 0 := by
  rw [← k2_symmetric hF hFd ha hb ho]
  unfold k2Violates
  simp

/-- brute-force validator decision: without the INSIDE filter, a strictly-inside vertex is always
reported unless its back test is exactly on the sphere (which, by `k2_symmetric`, cannot happen
for an embedded pair when the forward test is strict) -/
theorem bruteViolates_unfiltered (dGe4 : Bool) (inA : Int) (b : Int) (hA : inA > 0) (hb : b ≠ 0) :
    bruteViolates dGe4 false inA (some b) = true := by
  unfold bruteViolates
  simp [hA, hb]

theorem bruteViolates_filtered_symmetric (inA : Int) (hA : inA > 0) :
    bruteViolates true true inA (some inA) = false := by
  unfold bruteViolates
  simp [hA]

/-- executable brute-force empty-sphere check = declarative statement -/
theorem emptySphere_iff (K : Cx) :
    emptySphere K = true ↔
      ∀ c ∈ K.cells, ∀ s, cellPts K (minExp (allPts K)) c = some s → orientSign s ≠ 0 →
        ∀ vid p, (vid, p) ∈ vertPts K (minExp (allPts K)) → c.vs.contains vid = false →
          insphereSign s p ≤ 0 := by
  unfold emptySphere sphereViolations
  simp only [List.isEmpty_iff, List.flatMap_eq_nil_iff]
  constructor
  · intro h c hc s hs ho vid p hvp hnc
    have h1 := h c hc
    rw [hs] at h1
    simp only [beq_iff_eq, ho, ↓reduceIte, List.filterMap_eq_nil_iff] at h1
    have h2 := h1 (vid, p) hvp
    simp only [hnc, Bool.false_eq_true, ↓reduceIte] at h2
    by_cases hgt : insphereSign s p > 0
    · simp [hgt] at h2
    · omega
  · intro h c hc
    cases hs : cellPts K (minExp (allPts K)) c with
    | none => simp
    | some s =>
      simp only [beq_iff_eq]
      by_cases ho : orientSign s = 0
      · simp [ho]
      · simp only [ho, ↓reduceIte, List.filterMap_eq_nil_iff]
        intro vp hvp
        obtain ⟨vid, p⟩ := vp
        simp only
        by_cases hnc : c.vs.contains vid = true
        · have hm : vid ∈ c.vs := by simpa using hnc
          simp [hm]
        · have hnc' : c.vs.contains vid = false := by simpa using hnc
          have h3 := h c hc s hs ho vid p hvp hnc'
          simp only [hnc', Bool.false_eq_true, ↓reduceIte, ite_eq_right_iff]
          intro hgt
          omega

/-! ### F1 witness (4-D, 6 points): base simplex 0, 4e₁, 4e₂, 4e₃ with apexes (1,1,1,±2) -/

def wF : List IPt := [[0,0,0,0],[4,0,0,0],[0,4,0,0],[0,0,4,0]]
def wa : IPt := [1,1,1,2]
def wb : IPt := [1,1,1,-2]

/-- the two cells lie on opposite sides of the shared facet, the second apex is strictly inside
the first cell's circumsphere (so {F∪a, F∪b} is NOT Delaunay), and the filtered k=2 predicate
nevertheless reports "no violation". -/
theorem f1_witness :
    orientSign (wF ++ [wa]) = - orientSign (wF ++ [wb]) ∧
    insphereSign (wF ++ [wa]) wb = 1 ∧
    k2Violates true (insphereSign (wF ++ [wa]) wb) (insphereSign (wF ++ [wb]) wa) = false ∧
    k2Violates false (insphereSign (wF ++ [wa]) wb) (insphereSign (wF ++ [wb]) wa) = true := by
  decide

end DM.C04
