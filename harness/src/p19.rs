//! C19 — no panic and bounded work: budget counters reported by the public statistics are compared
//! with the model's budget formulas (K2), and adversarial calls (stale keys, out-of-range indices,
//! extreme magnitudes, non-finite coordinates) run under catch_unwind with a wall-clock ceiling.
use crate::common::{catch, Out, Rng};
use crate::gens;
use crate::hist::{self, World};
use crate::p04::random_flips;
use crate::tri;
use crate::Cfg;
use delaunay::core::algorithms::locate::locate_with_stats;
use delaunay::core::delaunay_triangulation::{DelaunayRepairHeuristicConfig, DelaunayRepairPolicy};
use delaunay::core::facet::FacetHandle;
use delaunay::core::vertex::Vertex;
use delaunay::geometry::kernel::{FastKernel, Kernel, RobustKernel};
use delaunay::geometry::point::Point;
use delaunay::geometry::traits::coordinate::Coordinate;
use delaunay::geometry::util::{circumcenter, circumradius, simplex_volume};
use delaunay::prelude::DelaunayTriangulation;
use delaunay::triangulation::flips::{BistellarFlips, EdgeKey, RidgeHandle, TriangleHandle};
use std::time::Instant;

const CEILING_S: f64 = 30.0;

fn timed<T>(f: impl FnOnce() -> T) -> (Result<T, String>, f64) {
    let t = Instant::now();
    let r = catch(f);
    (r, t.elapsed().as_secs_f64())
}

fn cls<T, E>(r: &Result<Result<T, E>, String>, secs: f64) -> String {
    if secs > CEILING_S { return format!("slow:{secs:.1}s"); }
    match r { Ok(Ok(_)) => "ok".into(), Ok(Err(_)) => "err".into(), Err(m) => format!("panic:{m}") }
}

fn budgets<const D: usize>(id: &str, rng: &mut Rng, out: &mut Out) {
    let np = D + 3 + rng.below(match D { 2 => 10, 3 => 7, 4 => 4, _ => 3 }) as usize;
    let ps = gens::point_set(rng, D, np);
    let Some(mut w): Option<World<D>> = hist::start_built::<D>(&ps.pts, 1, rng) else { return };
    out.case(id, "bud", &format!("D={D} debug={}", cfg!(debug_assertions) as u8));
    // locate budgets
    let kernel = FastKernel::<f64>::new();
    for _ in 0..10 {
        let mut q = [0.0f64; D];
        for x in q.iter_mut() { *x = rng.range(-40, 40) as f64 / 4.0; }
        let hint = w.dt.cells().map(|(k, _)| k).nth(rng.below(w.dt.number_of_cells().max(1) as u64) as usize);
        if let Ok(Ok((_, st))) = catch(|| locate_with_stats(w.dt.tds(), &kernel, &Point::new(q), hint)) {
            out.line(&format!("bl {} {} {}", st.walk_steps, w.dt.number_of_cells(), st.fallback.is_some() as u8));
        }
    }
    // insertion attempts
    for _ in 0..4 {
        let (p, _) = w.pick_point(rng, 8);
        let v = w.vertex(p, rng);
        if let Ok(Ok((_, st))) = catch(|| w.dt.insert_with_statistics(v)) { out.line(&format!("bi {}", st.attempts)); }
    }
    // repair budgets: push away from Delaunay, repair through both entry points
    w.dt.set_delaunay_repair_policy(DelaunayRepairPolicy::Never);
    let _ = random_flips(&mut w.dt, 6, rng);
    let cells = w.dt.number_of_cells();
    let (r, secs) = timed(|| w.dt.repair_delaunay_with_flips().map(|s| s.flips_performed));
    match &r { Ok(Ok(f)) => out.line(&format!("br {D} {cells} {f} ok {secs:.3}")), Ok(Err(_)) => out.line(&format!("br {D} {cells} 0 err {secs:.3}")), Err(m) => out.line(&format!("br {D} {cells} 0 panic:{m} {secs:.3}")) }
    let _ = random_flips(&mut w.dt, 6, rng);
    let cells = w.dt.number_of_cells();
    let (r, secs) = timed(|| w.dt.repair_delaunay_with_flips_advanced(DelaunayRepairHeuristicConfig::default()).map(|o| (o.stats.flips_performed, o.used_heuristic())));
    match &r { Ok(Ok((f, h))) => out.line(&format!("br {D} {cells} {f} ok{} {secs:.3}", if *h { "-heuristic" } else { "" })), Ok(Err(_)) => out.line(&format!("br {D} {cells} 0 err {secs:.3}")), Err(m) => out.line(&format!("br {D} {cells} 0 panic:{m} {secs:.3}")) }
    out.end();
}

fn adversarial<const D: usize>(id: &str, rng: &mut Rng, out: &mut Out) {
    let np = D + 3 + rng.below(4) as usize;
    let ps = gens::point_set(rng, D, np);
    let Some(mut w): Option<World<D>> = hist::start_built::<D>(&ps.pts, 1, rng) else { return };
    out.case(id, "adv", &format!("D={D}"));
    // a hull and an adjacency index taken BEFORE the mutations below: both are stale afterwards
    let hull0 = delaunay::geometry::algorithms::convex_hull::ConvexHull::<FastKernel<f64>, tri::VData, tri::CData, D>::from_triangulation(w.dt.as_triangulation()).ok();
    let index0 = w.dt.as_triangulation().build_adjacency_index().ok();
    // stale keys: take keys, then remove/replace them
    let old_cells: Vec<_> = w.dt.cells().map(|(k, _)| k).collect();
    let old_verts: Vec<_> = w.dt.vertices().map(|(k, _)| k).collect();
    for _ in 0..3 { let (p, _) = w.pick_point(rng, 6); let _ = w.do_insert(p, false, rng); }
    let keys = w.live_keys();
    if keys.len() > D + 3 { let vk = *rng.pick(&keys); let _ = w.do_remove(Some(vk), rng); }
    // truly stale keys are required for the stale-handle calls: otherwise skip this case
    let (Some(stale_c), Some(stale_v)) = (
        old_cells.iter().copied().find(|k| !w.dt.tds().contains_cell(*k)),
        old_verts.iter().copied().find(|k| !w.dt.tds().contains_vertex_key(*k)),
    ) else {
        out.obs("skipped_no_stale_key", "none");
        out.end();
        return;
    };
    let live_c = w.dt.cells().map(|(k, _)| k).next().unwrap();
    let live_v = w.dt.vertices().map(|(k, _)| k).next().unwrap();
    macro_rules! adv { ($name:expr, $e:expr) => {{ let (r, s) = timed(|| $e); out.obs($name, &cls(&r, s));
        if std::env::var_os("VH_DEBUG").is_some() { eprintln!("{} -> {} valid={:?}", $name, cls(&r, s), w.dt.as_triangulation().is_valid().is_ok()); } }}; }
    adv!("flip_k2_stale_cell", w.dt.flip_k2(FacetHandle::new(stale_c, 0)));
    adv!("flip_k2_index_255", w.dt.flip_k2(FacetHandle::new(live_c, 255)));
    adv!("flip_k2_index_D1", w.dt.flip_k2(FacetHandle::new(live_c, (D + 1) as u8)));
    adv!("flip_k3_same_index", w.dt.flip_k3(RidgeHandle::new(live_c, 1, 1)));
    adv!("flip_k3_index_255", w.dt.flip_k3(RidgeHandle::new(live_c, 0, 255)));
    adv!("flip_k3_stale_cell", w.dt.flip_k3(RidgeHandle::new(stale_c, 0, 1)));
    adv!("flip_k2inv_same_vertex", w.dt.flip_k2_inverse_from_edge(EdgeKey::new(live_v, live_v)));
    adv!("flip_k2inv_stale_vertex", w.dt.flip_k2_inverse_from_edge(EdgeKey::new(live_v, stale_v)));
    adv!("flip_k3inv_repeated", w.dt.flip_k3_inverse_from_triangle(TriangleHandle::new(live_v, live_v, stale_v)));
    adv!("flip_k1_remove_stale", w.dt.flip_k1_remove(stale_v));
    adv!("flip_k1_insert_stale_cell", w.dt.flip_k1_insert(stale_c, Vertex::new_with_uuid(Point::new([0.125; D]), rng.uuid(), None)));
    adv!("queries_stale", {
        let t = w.dt.as_triangulation();
        let _ = t.cell_neighbors(stale_c).count(); let _ = t.adjacent_cells(stale_v).count(); let _ = t.incident_edges(stale_v).count();
        let _ = t.cell_vertices(stale_c); let _ = t.vertex_coords(stale_v);
        Ok::<(), ()>(())
    });
    if let Some(h) = &hull0 {
        let t = w.dt.as_triangulation();
        let q = Point::new([7.5; D]);
        adv!("hull_stale_is_point_outside", h.is_point_outside(&q, t));
        adv!("hull_stale_find_visible_facets", h.find_visible_facets(&q, t));
        adv!("hull_stale_find_nearest_visible_facet", h.find_nearest_visible_facet(&q, t));
        adv!("hull_stale_validate", h.validate(t));
        if let Some(fh) = h.get_facet(0).copied() { adv!("hull_stale_is_facet_visible_from_point", h.is_facet_visible_from_point(&fh, &q, t)); }
    }
    // non-finite coordinates while the triangulation is still bootstrapping (fewer than D+1 vertices)
    for (nm, bad) in [("nan", f64::NAN), ("inf", f64::INFINITY)] {
        let mut e = hist::start_empty::<D>(1);
        let mut c = [0.25f64; D]; c[0] = bad;
        let (r, s2) = timed(|| e.dt.insert(Vertex::new_with_uuid(Point::new(c), rng.uuid(), None)));
        out.obs(&format!("nonfinite_insert_bootstrap_{nm}"), &cls(&r, s2));
    }
    adv!("locate_stale_hint", locate_with_stats(w.dt.tds(), &FastKernel::<f64>::new(), &Point::new([0.5; D]), Some(stale_c)));
    // extreme magnitudes
    let big = 2f64.powi(500); let tiny = 2f64.powi(-500);
    for (nm, sc) in [("big", big), ("tiny", tiny)] {
        let pts: Vec<Point<f64, D>> = (0..=D).map(|i| { let mut c = [0.0f64; D]; if i > 0 { c[i - 1] = sc; } Point::new(c) }).collect();
        adv!(&format!("orientation_{nm}"), Kernel::<D>::orientation(&FastKernel::<f64>::new(), &pts));
        adv!(&format!("insphere_robust_{nm}"), Kernel::<D>::in_sphere(&RobustKernel::<f64>::new(), &pts, &Point::new([sc / 4.0; D])));
        adv!(&format!("volume_{nm}"), simplex_volume(&pts));
        adv!(&format!("circumcenter_{nm}"), circumcenter(&pts));
        adv!(&format!("circumradius_{nm}"), circumradius(&pts));
        let mut vs: Vec<Vertex<f64, (), D>> = Vertex::from_points(&pts);
        vs.push(Vertex::from_points(&[Point::new([sc / 4.0; D])])[0]);
        adv!(&format!("build_{nm}"), DelaunayTriangulation::<_, (), (), D>::new(&vs));
        adv!(&format!("insert_{nm}"), w.dt.insert(Vertex::new_with_uuid(Point::new([sc; D]), rng.uuid(), None)));
    }
    // non-finite coordinates must be refused before they can enter a triangulation
    for (nm, bad) in [("nan", f64::NAN), ("inf", f64::INFINITY), ("ninf", f64::NEG_INFINITY)] {
        let mut c = [0.25f64; D]; c[D - 1] = bad;
        let (r, s) = timed(|| w.dt.insert(Vertex::new_with_uuid(Point::new(c), rng.uuid(), None)));
        out.obs(&format!("nonfinite_insert_{nm}"), &cls(&r, s));
        let mut pts: Vec<Point<f64, D>> = ps.pts.iter().map(|p| Point::new(gens::arr::<D>(p))).collect();
        pts.push(Point::new(c));
        let vs: Vec<Vertex<f64, (), D>> = Vertex::from_points(&pts);
        let (r, s) = timed(|| DelaunayTriangulation::<_, (), (), D>::new(&vs));
        // a successful build must not contain the non-finite vertex
        let stored_bad = matches!(&r, Ok(Ok(dt)) if dt.vertices().any(|(_, v)| v.point().coords().iter().any(|x| !x.is_finite())));
        out.obs(&format!("nonfinite_build_{nm}"), &if stored_bad { "stored".to_string() } else { cls(&r, s) });
    }
    let stored_bad = w.dt.vertices().any(|(_, v)| v.point().coords().iter().any(|x| !x.is_finite()));
    out.obs("nonfinite_in_triangulation", if stored_bad { "stored" } else { "none" });
    // the triangulation is still usable
    out.obs("still_valid", &tri::err_kind(&format!("{:?}", w.dt.as_triangulation().is_valid().map(|_| "ok"))));
    out.end();
    // a document with two vertex UUIDs of one cell swapped LOADS (known finding F7b of C13); the
    // Edit API must then still answer with Ok or a typed Err
    if let Ok(mut doc) = serde_json::to_value(w.dt.tds()) {
        let key = doc.get("cell_vertices").and_then(|m| m.as_object()).and_then(|m| m.keys().next().cloned());
        if let Some(k) = key {
            if let Some(l) = doc["cell_vertices"][&k].as_array_mut() { l.swap(0, 1); }
            if let Ok(tds) = serde_json::from_str::<delaunay::core::triangulation_data_structure::Tds<f64, tri::VData, tri::CData, D>>(&doc.to_string()) {
                let mut d2: tri::DtF<D> = DelaunayTriangulation::from_tds_with_topology_guarantee(tds, FastKernel::new(), tri::guarantee(1));
                out.case(&format!("{id}_inc"), "adv", &format!("D={D} what=edit_on_incoherent_document"));
                let cks: Vec<_> = d2.cells().map(|(k, _)| k).collect();
                let mut n = 0;
                for ck in cks.iter().take(4) {
                    for f in 0..=(D as u8) {
                        let (r, s2) = timed(|| d2.flip_k2(FacetHandle::new(*ck, f)));
                        n += 1;
                        out.obs(&format!("incoherent_flip_k2_{n}"), &cls(&r, s2));
                    }
                }
                out.end();
            }
        }
    }
    // a stale AdjacencyIndex is a handle like any other: its own case, so that it is judged alone
    if let Some(ix) = &index0 {
        out.case(&format!("{id}_ix"), "adv", &format!("D={D} what=stale_adjacency_index"));
        let (r, s2) = timed(|| {
            let t = w.dt.as_triangulation();
            let _ = t.edges_with_index(ix).count();
            let _ = t.number_of_edges_with_index(ix);
            if let Some(vk) = w.dt.vertices().map(|(k, _)| k).last() { let _ = t.adjacent_cells_with_index(ix, vk).count(); let _ = t.incident_edges_with_index(ix, vk).count(); }
            Ok::<(), ()>(())
        });
        out.obs("stale_index_queries", &cls(&r, s2));
        out.end();
    }
}


// ---------------------------------------------------------------------------------------------
// Inconsistent predicates: `Kernel` is a public trait, so a kernel whose `in_sphere` lies is a
// legitimate finite input.  Termination of the flip repair must then come from the budgets alone
// (theorems loop_flips_bounded / loop_iters_bounded hold for ANY predicate behaviour).
// ---------------------------------------------------------------------------------------------
use delaunay::geometry::traits::coordinate::CoordinateConversionError;
use std::cell::Cell as StdCell;

thread_local! {
    static LIE_MODE: StdCell<u8> = const { StdCell::new(0) };        // 0 honest, 1 always inside, 2 alternate, 3 pseudo-random
    static LIE_CALLS: StdCell<u64> = const { StdCell::new(0) };
    static LIE_CEILING: StdCell<u64> = const { StdCell::new(u64::MAX) };
}

#[derive(Clone, Default, Debug)]
pub struct LyingKernel { inner: RobustKernel<f64> }

impl<const D: usize> Kernel<D> for LyingKernel {
    type Scalar = f64;
    fn orientation(&self, points: &[Point<f64, D>]) -> Result<i32, CoordinateConversionError> {
        <RobustKernel<f64> as Kernel<D>>::orientation(&self.inner, points)
    }
    fn in_sphere(&self, simplex: &[Point<f64, D>], test: &Point<f64, D>) -> Result<i32, CoordinateConversionError> {
        let mode = LIE_MODE.with(|m| m.get());
        if mode == 0 { return <RobustKernel<f64> as Kernel<D>>::in_sphere(&self.inner, simplex, test); }
        let calls = LIE_CALLS.with(|c| { c.set(c.get() + 1); c.get() });
        if calls > LIE_CEILING.with(|c| c.get()) {
            // breaker: past the budget-implied work bound every query fails, which drains the queue
            return Err(CoordinateConversionError::NonFiniteValue { coordinate_index: 0, coordinate_value: "work ceiling".to_string() });
        }
        Ok(match mode {
            1 => 1,
            2 => if calls % 2 == 0 { 1 } else { -1 },
            _ => { let mut z = calls.wrapping_mul(0x9E37_79B9_7F4A_7C15); z ^= z >> 29; [1, 1, -1, 0][(z % 4) as usize] }
        })
    }
}

/// the budget-implied bound on in-sphere evaluations of one repair call (mirrors Budget.workBound)
fn work_bound(d: u64, cells: u64, debug: bool) -> u64 {
    let b = if debug && d >= 4 { (cells * (d + 1) * 4).max(4096) } else { let m = if debug && d == 3 { 8 } else { 4 }; (cells * (d + 1) * m).max(512) };
    let comb = if d <= 2 { d + 1 } else { (d + 1) + (d + 1) * d / 2 + (d + 1) * d * (d - 1) / 6 }; // facets (+ ridges/edges + triangles) of one cell
    let queue0 = cells * comb;
    let e = (if d <= 2 { 2 } else { d + 2 }) * comb;
    let iters = queue0 + (b + 1) * (e + 1);
    let per_item = if d <= 2 { 2 } else { 2 * (d + 2) };
    6 * per_item * iters + 6 * 2 * (d + 1) * cells
}

fn lying<const D: usize>(id: &str, rng: &mut Rng, out: &mut Out, np: usize) {
    let pts = gens::to_f(&gens::random_grid(rng, D, np, 60), 1.0, 0.0);
    if pts.len() < D + 2 { return; }
    let vs: Vec<Vertex<f64, i32, D>> = pts.iter().enumerate().map(|(i, p)| Vertex::new_with_uuid(Point::new(gens::arr::<D>(p)), rng.uuid(), Some(i as i32))).collect();
    LIE_MODE.with(|m| m.set(0));
    let kernel = LyingKernel::default();
    let Ok(Ok(mut dt)) = catch(|| DelaunayTriangulation::<LyingKernel, i32, i32, D>::with_kernel(&kernel, &vs)) else { return };
    let cells = dt.number_of_cells() as u64;
    if cells == 0 { return; }
    let debug = cfg!(debug_assertions);
    let bound = work_bound(D as u64, cells, debug);
    out.case(id, "bud", &format!("D={D} debug={}", debug as u8));
    for mode in 1u8..=3 {
        for adv in [false, true] {
            let before = crate::common::fingerprint(dt.tds());
            LIE_CALLS.with(|c| c.set(0));
            LIE_CEILING.with(|c| c.set(bound));
            LIE_MODE.with(|m| m.set(mode));
            let t = Instant::now();
            let r = catch(|| if adv { dt.repair_delaunay_with_flips_advanced(DelaunayRepairHeuristicConfig::default()).map(|o| o.stats) } else { dt.repair_delaunay_with_flips() });
            let secs = t.elapsed().as_secs_f64();
            LIE_MODE.with(|m| m.set(0));
            let calls = LIE_CALLS.with(|c| c.get());
            let unchanged = crate::common::fingerprint(dt.tds()) == before;
            let (res, flips, maxf) = match &r {
                Ok(Ok(st)) => ("ok".to_string(), st.flips_performed as i64, -1i64),
                Ok(Err(e)) => {
                    let s = format!("{e:?}");
                    if let delaunay::core::algorithms::flips::DelaunayRepairError::NonConvergent { max_flips, diagnostics } = e {
                        ("nonconvergent".to_string(), diagnostics.flips_performed as i64, *max_flips as i64)
                    } else { (format!("err:{}", tri::err_kind(&s)), -1, -1) }
                }
                Err(m) => (format!("panic:{m}"), -1, -1),
            };
            // bk <D> <cells at call time> <mode> <adv> <calls> <result> <flips> <max_flips> <unchanged> <secs>
            out.line(&format!("bk {D} {} {mode} {} {calls} {res} {flips} {maxf} {} {secs:.1}", dt.number_of_cells().max(cells as usize), adv as u8, unchanged as u8));
            if calls > bound { out.end(); return; } // the breaker tripped: reported, no need to repeat
        }
    }
    out.end();
}

/// every batch constructor on inputs too small to triangulate, or that become too small once
/// duplicates are removed: m = 0..D+1 distinct points, each 1-3 times, every dedup policy, all
/// constructor APIs (plain, options, statistics twins, general, builder).  Only the outcome class
/// travels: Ok or a typed Err are both fine, a panic is not.
pub fn small_inputs<const D: usize>(id: &str, rng: &mut Rng, out: &mut Out) {
    use delaunay::core::delaunay_triangulation::ConstructionOptions;
    out.case(id, "adv", &format!("D={D} what=small_inputs"));
    let base = gens::to_f(&gens::general_position(rng, D, D + 2, 6), 1.0, 0.0);
    for m in 0..=(D + 1) {
        for mult in [1usize, 2, 3] {
            if m == 0 && mult > 1 { continue; }
            let mut pts: Vec<[f64; D]> = Vec::new();
            for p in base.iter().take(m) { for _ in 0..mult { pts.push(gens::arr::<D>(p)); } }
            // near-duplicates (within every epsilon policy, outside exact equality) for mult = 3
            if mult == 3 { for (i, p) in pts.iter_mut().enumerate() { if i % 3 == 2 { p[0] += 1e-13; } } }
            rng.shuffle(&mut pts);
            let plain: Vec<Vertex<f64, (), D>> = Vertex::from_points(&pts.iter().map(|p| Point::new(*p)).collect::<Vec<_>>());
            let vs: Vec<Vertex<f64, tri::VData, D>> = pts.iter().enumerate().map(|(i, p)| Vertex::new_with_uuid(Point::new(*p), rng.uuid(), Some(i as i32))).collect();
            for dedup in 0u8..4 {
                let o = tri::Opts { order: (m as u8 + dedup) % 4, dedup, simplex: (mult % 2) as u8, retry: dedup % 4 };
                let tag = format!("m{m}_x{mult}_d{dedup}");
                let opts = || -> ConstructionOptions { o.build() };
                if dedup == 0 {
                    let (r, s) = timed(|| DelaunayTriangulation::<_, (), (), D>::new(&plain)); out.obs(&format!("small_new_{tag}"), &cls(&r, s));
                    let (r, s) = timed(|| DelaunayTriangulation::<_, (), (), D>::new_with_construction_statistics(&plain)); out.obs(&format!("small_new_stats_{tag}"), &cls(&r, s));
                }
                let (r, s) = timed(|| DelaunayTriangulation::<_, (), (), D>::new_with_options(&plain, opts())); out.obs(&format!("small_opts_{tag}"), &cls(&r, s));
                let (r, s) = timed(|| DelaunayTriangulation::<_, (), (), D>::new_with_options_and_construction_statistics(&plain, opts())); out.obs(&format!("small_opts_stats_{tag}"), &cls(&r, s));
                for g in 0..3usize {
                    let (r, s) = timed(|| DelaunayTriangulation::<FastKernel<f64>, tri::VData, tri::CData, D>::with_topology_guarantee_and_options(&FastKernel::new(), &vs, tri::guarantee(g), opts()));
                    out.obs(&format!("small_general_g{g}_{tag}"), &cls(&r, s));
                    let (r, s) = timed(|| DelaunayTriangulation::<FastKernel<f64>, tri::VData, tri::CData, D>::with_topology_guarantee_and_options_with_construction_statistics(&FastKernel::new(), &vs, tri::guarantee(g), opts()));
                    out.obs(&format!("small_general_stats_g{g}_{tag}"), &cls(&r, s));
                    let (r, s) = timed(|| DelaunayTriangulation::<RobustKernel<f64>, tri::VData, tri::CData, D>::with_topology_guarantee_and_options_with_construction_statistics(&RobustKernel::new(), &vs, tri::guarantee(g), opts()));
                    out.obs(&format!("small_robust_stats_g{g}_{tag}"), &cls(&r, s));
                }
                let (r, s) = timed(|| delaunay::core::builder::DelaunayTriangulationBuilder::from_vertices(&vs).construction_options(opts()).build::<tri::CData>());
                out.obs(&format!("small_builder_{tag}"), &cls(&r, s));
            }
        }
    }
    out.end();
}

/// batch construction with `DedupPolicy::Epsilon` when coordinate / tolerance sits exactly on the
/// edges of the i64 / f64-integer ranges (+-2^52, 2^53, 2^62, 2^63, 2^64): the hash-grid key, the
/// quantised fallback and its neighbour enumeration must not overflow.  Outcome class only.
pub fn extreme_dedup<const D: usize>(id: &str, rng: &mut Rng, out: &mut Out) {
    use delaunay::core::delaunay_triangulation::{ConstructionOptions, DedupPolicy};
    out.case(id, "adv", &format!("D={D} what=extreme_dedup"));
    let base = gens::to_f(&gens::general_position(rng, D, D + 2, 6), 1.0, 0.0);
    for tol in [1.0f64, 0.5, 1e-9] {
        for k in [52i32, 53, 62, 63, 64] {
            for sign in [1.0f64, -1.0] {
                let mut pts: Vec<[f64; D]> = base.iter().map(|p| gens::arr::<D>(p)).collect();
                let ax = rng.below(D as u64) as usize;
                let mut far = [0.0f64; D];
                far[ax] = sign * tol * 2f64.powi(k);
                pts.insert(rng.below(pts.len() as u64 + 1) as usize, far);
                let plain: Vec<Vertex<f64, (), D>> = Vertex::from_points(&pts.iter().map(|p| Point::new(*p)).collect::<Vec<_>>());
                let o = ConstructionOptions::default().with_dedup_policy(DedupPolicy::Epsilon { tolerance: tol });
                let (r, s) = timed(|| DelaunayTriangulation::<_, (), (), D>::new_with_options(&plain, o));
                out.obs(&format!("extreme_dedup_tol{tol:e}_k{k}_{}", if sign > 0.0 { "pos" } else { "neg" }), &cls(&r, s));
            }
        }
    }
    out.end();
}

pub fn run(cfg: &Cfg, rng: &mut Rng, out: &mut Out) {
    let thorough = cfg.tier == "thorough";
    extreme_dedup::<2>("xd2", rng, out);
    extreme_dedup::<3>("xd3", rng, out);
    if thorough { extreme_dedup::<4>("xd4", rng, out); extreme_dedup::<5>("xd5", rng, out); }
    for i in 0..(if thorough { 3 } else { 1 }) {
        small_inputs::<2>(&format!("sm2_{i}"), rng, out);
        small_inputs::<3>(&format!("sm3_{i}"), rng, out);
        small_inputs::<4>(&format!("sm4_{i}"), rng, out);
        small_inputs::<5>(&format!("sm5_{i}"), rng, out);
    }
    let n = if thorough { 200 } else { 24 };
    for i in 0..n {
        match 2 + (i % 4) {
            2 => { budgets::<2>(&format!("k{i}"), rng, out); adversarial::<2>(&format!("a{i}"), rng, out); }
            3 => { budgets::<3>(&format!("k{i}"), rng, out); adversarial::<3>(&format!("a{i}"), rng, out); }
            4 => { budgets::<4>(&format!("k{i}"), rng, out); adversarial::<4>(&format!("a{i}"), rng, out); }
            _ => { budgets::<5>(&format!("k{i}"), rng, out); adversarial::<5>(&format!("a{i}"), rng, out); }
        }
    }
    for i in 0..(if thorough { 6 } else { 2 }) {
        lying::<2>(&format!("y2_{i}"), rng, out, 40);
        lying::<3>(&format!("y3_{i}"), rng, out, 14);
        if thorough || i == 0 { lying::<4>(&format!("y4_{i}"), rng, out, 9); }
    }
}
