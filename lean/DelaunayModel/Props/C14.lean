/-
Props/C14.lean — property theorems for C14: construction is deterministic and, with the Hilbert /
Morton / lexicographic insertion ordering, independent of the order in which the caller listed the
vertices; in general position every certified construction yields THE Delaunay triangulation.

Models: `Model/Order.lean`, `Model/Certify.lean`.  Helpers: `Lemmas/DetermAux.lean`.

Determinism itself is definitional in the model: every model function is a pure Lean function, so
"same input ⇒ same output" is `congrArg`; no theorem is stated for it.  The tie to the real code is
by correspondence (K1/K2 replay the real run twice and compare against the one model value).

What is proved here is listing-order independence.

A. orderings.  Values are `(key, coordinates)`; the input index is only the last tie-break.
 * `sortKeyed_values_perm_invariant`: two keyed lists with the same value multiset (points of one
   common length; comparison-equal values are equal) have the same sorted value sequence;
 * `cmpPt_faithful`: the comparison-equality hypothesis holds for normalised dyadic coordinates
   (`DyNorm`), and `ofBits_normalised`: every finite decoded f64 is normalised;
 * `orderByKey_perm_invariant_of` / `orderByKey_perm_invariant`, `orderLex_perm_invariant`,
   `mortonKey_perm`, `hilbertKey_perm`, `orderMorton_perm_invariant`,
   `orderHilbert_perm_invariant` (`D ≠ 0`), `orderByStrategy_perm_invariant` (strategies ≥ 1);
 * counterexamples: `orderLex_perm_invariant_fails_unnormalised` (two representations of one
   number: the index tie-break decides), `orderHilbert_perm_invariant_fails_D0` (`D = 0` returns
   the input order), `orderInput_not_invariant` (strategy 0).
B. `seed_perm_invariant`: the shuffle seed hashes the sorted per-vertex hashes.
C. `dt_unique`, `bruteDT_perm_eq`, `bruteDT_perm_invariant`, `generalPosition_perm`,
   `certified_unique`: the brute-force Delaunay set is a function of the point SET, and two
   complexes certified against it (for any two listings) have the same cells.
D. non-vacuity by `decide`.
-/
import DelaunayModel.Lemmas.DetermAux
namespace DM.C14

open DM DM.Order DM.OrderAux DM.DetermAux

/-! ## A. orderings -/

/-- the value of a keyed vertex: key and coordinates, without the input index -/
abbrev valOf (p : Nat × OV) : Nat × DPt := DetermAux.valOf p

example (p : Nat × OV) : valOf p = (p.1, p.2.pt) := rfl

/-- Listing-order independence of the sorted value sequence.  No "no ties" hypothesis is needed:
values that tie are equal objects (`hEq`), so whichever the index tie-break puts first, the value
sequence is the same. -/
theorem sortKeyed_values_perm_invariant {n : Nat} (l₁ l₂ : List (Nat × OV))
    (hp : (l₁.map valOf).Perm (l₂.map valOf))
    (hn : ∀ p ∈ l₁, p.2.pt.length = n)
    (hEq : ∀ a ∈ l₁, ∀ b ∈ l₂, cmpNat a.1 b.1 = .eq → cmpPt a.2.pt b.2.pt = .eq →
      valOf a = valOf b) :
    (sortKeyed l₁).map valOf = (sortKeyed l₂).map valOf := by
  have hn₂ : ∀ p ∈ l₂, p.2.pt.length = n := by
    intro p hp₂
    have hm : valOf p ∈ l₁.map valOf := hp.mem_iff.2 (List.mem_map.2 ⟨p, hp₂, rfl⟩)
    obtain ⟨q, hq, he⟩ := List.mem_map.1 hm
    have : q.2.pt = p.2.pt := congrArg Prod.snd he
    rw [← this]
    exact hn q hq
  exact sortKeyed_values_eq l₁ l₂ hp hn hn₂ hEq

/-- the comparison-equality hypothesis holds for normalised dyadic coordinates -/
theorem cmpPt_faithful {p q : DPt} (hl : p.length = q.length) (hp : PtNorm p) (hq : PtNorm q)
    (h : cmpPt p q = .eq) : p = q := cmpPt_eq_norm hl hp hq h

/-- every finite f64 decodes to a normalised dyadic -/
theorem ofBits_normalised (b : Nat) (d : Dy) (h : F64.ofBits b = .fin d) : DyNorm d :=
  ofBits_dyNorm b d h

/-- facts about `ys` transported along the value permutation -/
theorem transport {P : DPt → Prop} {xs ys : List OV} (hp : (xs.map (·.pt)).Perm (ys.map (·.pt)))
    (h : ∀ v ∈ xs, P v.pt) : ∀ v ∈ ys, P v.pt := by
  intro v hv
  have hm : v.pt ∈ xs.map (·.pt) := hp.mem_iff.2 (List.mem_map.2 ⟨v, hv, rfl⟩)
  obtain ⟨u, hu, he⟩ := List.mem_map.1 hm
  rw [← he]
  exact h u hu

/-- general form: comparison-equal coordinates are equal (explicit hypothesis) -/
theorem orderByKey_perm_invariant_of {n : Nat} (kf : DPt → Nat) (xs ys : List OV)
    (hp : (xs.map (·.pt)).Perm (ys.map (·.pt)))
    (hn : ∀ v ∈ xs, v.pt.length = n)
    (hEq : ∀ a ∈ xs, ∀ b ∈ ys, cmpPt a.pt b.pt = .eq → a.pt = b.pt) :
    (orderByKey (fun v => kf v.pt) xs).map (·.pt) = (orderByKey (fun v => kf v.pt) ys).map (·.pt) := by
  have hval : ∀ vs : List OV, (vs.map (fun v => (kf v.pt, v))).map valOf =
      (vs.map (·.pt)).map (fun p => (kf p, p)) := by
    intro vs
    rw [List.map_map, List.map_map]
    rfl
  have key := sortKeyed_values_perm_invariant (n := n)
    (xs.map (fun v => (kf v.pt, v))) (ys.map (fun v => (kf v.pt, v)))
    (by rw [hval, hval]; exact hp.map _)
    (by
      intro p hp'
      obtain ⟨v, hv, rfl⟩ := List.mem_map.1 hp'
      exact hn v hv)
    (by
      intro a ha b hb _ hc
      obtain ⟨u, hu, rfl⟩ := List.mem_map.1 ha
      obtain ⟨w, hw, rfl⟩ := List.mem_map.1 hb
      have e : u.pt = w.pt := hEq u hu w hw hc
      show (kf u.pt, u.pt) = (kf w.pt, w.pt)
      rw [e])
  have hout : ∀ vs : List OV, (orderByKey (fun v => kf v.pt) vs).map (·.pt) =
      ((sortKeyed (vs.map (fun v => (kf v.pt, v)))).map valOf).map (·.2) := by
    intro vs
    unfold orderByKey
    rw [List.map_map, List.map_map]
    rfl
  rw [hout, hout, key]

/-- Listing-order independence of a key ordering whose key depends on the coordinates only:
the same vertex values (normalised coordinates, one common length), listed in any order and with
any input indices, are inserted in the same order.  Duplicated coordinates are allowed. -/
theorem orderByKey_perm_invariant {n : Nat} (kf : DPt → Nat) (xs ys : List OV)
    (hp : (xs.map (·.pt)).Perm (ys.map (·.pt)))
    (hn : ∀ v ∈ xs, v.pt.length = n) (hnorm : ∀ v ∈ xs, PtNorm v.pt) :
    (orderByKey (fun v => kf v.pt) xs).map (·.pt) = (orderByKey (fun v => kf v.pt) ys).map (·.pt) := by
  have hn' := transport (P := fun p => p.length = n) hp hn
  have hnorm' := transport (P := PtNorm) hp hnorm
  exact orderByKey_perm_invariant_of kf xs ys hp hn
    (fun a ha b hb h => cmpPt_eq_norm ((hn a ha).trans (hn' b hb).symm) (hnorm a ha) (hnorm' b hb) h)

theorem orderLex_perm_invariant {n : Nat} (xs ys : List OV)
    (hp : (xs.map (·.pt)).Perm (ys.map (·.pt)))
    (hn : ∀ v ∈ xs, v.pt.length = n) (hnorm : ∀ v ∈ xs, PtNorm v.pt) :
    (orderLex xs).map (·.pt) = (orderLex ys).map (·.pt) :=
  orderByKey_perm_invariant (fun _ => 0) xs ys hp hn hnorm

/-! ### Morton / Hilbert keys depend on the vertex list only through order-independent aggregates -/

theorem getD_norm {p : DPt} (hp : PtNorm p) (a : Nat) : DyNorm (p.getD a Dy.zero) := by
  rw [List.getD_eq_getElem?_getD]
  by_cases h : a < p.length
  · rw [List.getElem?_eq_getElem h]
    exact hp _ (List.getElem_mem h)
  · rw [List.getElem?_eq_none (by omega)]
    exact dyNorm_zero

/-- per-axis columns of permuted listings have the same minimum and maximum -/
theorem col_minmax_perm {xs ys : List OV} (hp : (xs.map (·.pt)).Perm (ys.map (·.pt)))
    (hnorm : ∀ v ∈ xs, PtNorm v.pt) (a : Nat) :
    qMin (xs.map (fun v => Q.ofDy (v.pt.getD a Dy.zero))) =
      qMin (ys.map (fun v => Q.ofDy (v.pt.getD a Dy.zero))) ∧
    qMax (xs.map (fun v => Q.ofDy (v.pt.getD a Dy.zero))) =
      qMax (ys.map (fun v => Q.ofDy (v.pt.getD a Dy.zero))) := by
  have hcol : ∀ vs : List OV, vs.map (fun v => Q.ofDy (v.pt.getD a Dy.zero)) =
      ((vs.map (·.pt)).map (fun p => p.getD a Dy.zero)).map Q.ofDy := by
    intro vs
    rw [List.map_map, List.map_map]
    rfl
  have hperm : (xs.map (fun v => Q.ofDy (v.pt.getD a Dy.zero))).Perm
      (ys.map (fun v => Q.ofDy (v.pt.getD a Dy.zero))) := by
    rw [hcol, hcol]
    exact (hp.map _).map _
  have hds : ∀ d ∈ (xs.map (·.pt)).map (fun p => p.getD a Dy.zero), DyNorm d := by
    intro d hd
    obtain ⟨p, hp', rfl⟩ := List.mem_map.1 hd
    obtain ⟨v, hv, rfl⟩ := List.mem_map.1 hp'
    exact getD_norm (hnorm v hv) a
  obtain ⟨hpos, hanti⟩ := ofDy_list_ok _ hds
  rw [← hcol] at hpos hanti
  exact ⟨qMin_perm hperm hpos hanti, qMax_perm hperm hpos hanti⟩

/-- the Morton key function is the same for permuted listings -/
theorem mortonKey_perm (D : Nat) {xs ys : List OV} (hp : (xs.map (·.pt)).Perm (ys.map (·.pt)))
    (hnorm : ∀ v ∈ xs, PtNorm v.pt) : mortonKey D xs = mortonKey D ys := by
  unfold mortonKey
  split
  · rfl
  · have hmins : ((List.range D).map (fun a => xs.map (fun v => Q.ofDy (v.pt.getD a Dy.zero)))).map qMin =
        ((List.range D).map (fun a => ys.map (fun v => Q.ofDy (v.pt.getD a Dy.zero)))).map qMin := by
      rw [List.map_map, List.map_map]
      exact List.map_congr_left (fun a _ => (col_minmax_perm hp hnorm a).1)
    have hmaxs : ((List.range D).map (fun a => xs.map (fun v => Q.ofDy (v.pt.getD a Dy.zero)))).map qMax =
        ((List.range D).map (fun a => ys.map (fun v => Q.ofDy (v.pt.getD a Dy.zero)))).map qMax := by
      rw [List.map_map, List.map_map]
      exact List.map_congr_left (fun a _ => (col_minmax_perm hp hnorm a).2)
    simp only [hmins, hmaxs]

/-- the global coordinate list of permuted listings has the same minimum and maximum -/
theorem all_minmax_perm {xs ys : List OV} (hp : (xs.map (·.pt)).Perm (ys.map (·.pt)))
    (hnorm : ∀ v ∈ xs, PtNorm v.pt) :
    qMin (xs.flatMap (fun v => v.pt.map Q.ofDy)) = qMin (ys.flatMap (fun v => v.pt.map Q.ofDy)) ∧
    qMax (xs.flatMap (fun v => v.pt.map Q.ofDy)) = qMax (ys.flatMap (fun v => v.pt.map Q.ofDy)) := by
  have hall : ∀ vs : List OV, vs.flatMap (fun v => v.pt.map Q.ofDy) =
      ((vs.map (·.pt)).flatMap id).map Q.ofDy := by
    intro vs
    rw [List.map_flatMap, List.flatMap_map]
    rfl
  have hperm : (xs.flatMap (fun v => v.pt.map Q.ofDy)).Perm (ys.flatMap (fun v => v.pt.map Q.ofDy)) := by
    rw [hall, hall]
    exact (hp.flatMap_right id).map _
  have hds : ∀ d ∈ (xs.map (·.pt)).flatMap id, DyNorm d := by
    intro d hd
    obtain ⟨p, hp', hdp⟩ := List.mem_flatMap.1 hd
    obtain ⟨v, hv, rfl⟩ := List.mem_map.1 hp'
    exact hnorm v hv d hdp
  obtain ⟨hpos, hanti⟩ := ofDy_list_ok _ hds
  rw [← hall] at hpos hanti
  exact ⟨qMin_perm hperm hpos hanti, qMax_perm hperm hpos hanti⟩

theorem hilbertQuant_perm (D : Nat) {xs ys : List OV} (hp : (xs.map (·.pt)).Perm (ys.map (·.pt)))
    (hnorm : ∀ v ∈ xs, PtNorm v.pt) : hilbertQuant D xs = hilbertQuant D ys := by
  unfold hilbertQuant
  simp only [(all_minmax_perm hp hnorm).1, (all_minmax_perm hp hnorm).2]

/-- the Hilbert key function is the same for permuted listings -/
theorem hilbertKey_perm (D : Nat) {xs ys : List OV} (hp : (xs.map (·.pt)).Perm (ys.map (·.pt)))
    (hnorm : ∀ v ∈ xs, PtNorm v.pt) : hilbertKey D xs = hilbertKey D ys := by
  unfold hilbertKey
  rw [hilbertQuant_perm D hp hnorm]

/-- both key functions look at a vertex only through its coordinates -/
theorem mortonKey_pt (D : Nat) (vs : List OV) (v : OV) :
    mortonKey D vs v = mortonKey D vs ⟨0, v.pt⟩ := by
  unfold mortonKey
  cases Hilbert.mortonBits D <;> rfl

theorem hilbertKey_pt (D : Nat) (vs : List OV) (v : OV) :
    hilbertKey D vs v = hilbertKey D vs ⟨0, v.pt⟩ := rfl

theorem orderMorton_perm_invariant {n : Nat} (D : Nat) (xs ys : List OV)
    (hp : (xs.map (·.pt)).Perm (ys.map (·.pt)))
    (hn : ∀ v ∈ xs, v.pt.length = n) (hnorm : ∀ v ∈ xs, PtNorm v.pt) :
    (orderMorton D xs).map (·.pt) = (orderMorton D ys).map (·.pt) := by
  unfold orderMorton
  split
  · exact orderLex_perm_invariant xs ys hp hn hnorm
  · rw [← mortonKey_perm D hp hnorm]
    have hk : mortonKey D xs = fun v => (fun p => mortonKey D xs ⟨0, p⟩) v.pt :=
      funext (mortonKey_pt D xs)
    rw [hk]
    exact orderByKey_perm_invariant (fun p => mortonKey D xs ⟨0, p⟩) xs ys hp hn hnorm

/-- `D ≠ 0` is necessary: see `orderHilbert_perm_invariant_fails_D0` -/
theorem orderHilbert_perm_invariant {n : Nat} (D : Nat) (hD : D ≠ 0) (xs ys : List OV)
    (hp : (xs.map (·.pt)).Perm (ys.map (·.pt)))
    (hn : ∀ v ∈ xs, v.pt.length = n) (hnorm : ∀ v ∈ xs, PtNorm v.pt) :
    (orderHilbert D xs).map (·.pt) = (orderHilbert D ys).map (·.pt) := by
  have hD' : (D == 0) = false := by simpa using hD
  have hemp : xs.isEmpty = ys.isEmpty := by
    have := hp.isEmpty_eq
    simpa using this
  unfold orderHilbert
  rw [← hemp, hD', Bool.or_false]
  cases xs with
  | nil =>
    cases ys with
    | nil => rfl
    | cons y ys => simp at hemp
  | cons x xs' =>
    simp only [List.isEmpty_cons, Bool.false_eq_true, if_false]
    rw [← hilbertKey_perm D hp hnorm]
    have hk : hilbertKey D (x :: xs') = fun v => (fun p => hilbertKey D (x :: xs') ⟨0, p⟩) v.pt :=
      funext (hilbertKey_pt D (x :: xs'))
    rw [hk]
    exact orderByKey_perm_invariant (fun p => hilbertKey D (x :: xs') ⟨0, p⟩) (x :: xs') ys hp hn hnorm

/-- every sorting strategy (1 lexicographic, 2 Morton, ≥ 3 Hilbert) is listing-order independent -/
theorem orderByStrategy_perm_invariant {n : Nat} (D : Nat) (hD : D ≠ 0) (s : Nat) (hs : s ≠ 0)
    (xs ys : List OV) (hp : (xs.map (·.pt)).Perm (ys.map (·.pt)))
    (hn : ∀ v ∈ xs, v.pt.length = n) (hnorm : ∀ v ∈ xs, PtNorm v.pt) :
    (orderByStrategy D s xs).map (·.pt) = (orderByStrategy D s ys).map (·.pt) := by
  unfold orderByStrategy
  split
  · exact absurd rfl hs
  · exact orderLex_perm_invariant xs ys hp hn hnorm
  · exact orderMorton_perm_invariant D xs ys hp hn hnorm
  · exact orderHilbert_perm_invariant D hD xs ys hp hn hnorm

/-! ### counterexamples delimiting the statement -/

/-- FALSE without normalisation: `2·2⁰` and `1·2¹` are the same number in two representations;
they tie in `cmpPt`, the input index decides, and the two listings give different sequences of
(representations of) coordinates.  Finite f64 inputs are always normalised (`ofBits_normalised`);
the real-code analogue of this tie is `+0.0` vs `-0.0`, which the decoder identifies. -/
theorem orderLex_perm_invariant_fails_unnormalised :
    let xs : List OV := [⟨0, [⟨2, 0⟩]⟩, ⟨1, [⟨1, 1⟩]⟩]
    let ys : List OV := [⟨0, [⟨1, 1⟩]⟩, ⟨1, [⟨2, 0⟩]⟩]
    (xs.map (·.pt)).Perm (ys.map (·.pt)) ∧ (∀ v ∈ xs, v.pt.length = 1) ∧
      (orderLex xs).map (·.pt) ≠ (orderLex ys).map (·.pt) := by
  refine ⟨List.Perm.swap _ _ _, by decide, by decide⟩

/-- FALSE for `D = 0`: `orderHilbert 0` returns the caller's order -/
theorem orderHilbert_perm_invariant_fails_D0 :
    let xs : List OV := [⟨0, [⟨1, 0⟩]⟩, ⟨1, [⟨0, 0⟩]⟩]
    let ys : List OV := [⟨0, [⟨0, 0⟩]⟩, ⟨1, [⟨1, 0⟩]⟩]
    (xs.map (·.pt)).Perm (ys.map (·.pt)) ∧ (∀ v ∈ xs, PtNorm v.pt) ∧
      (orderHilbert 0 xs).map (·.pt) ≠ (orderHilbert 0 ys).map (·.pt) := by
  refine ⟨List.Perm.swap _ _ _, by decide, by decide⟩

/-- strategy 0 (input order) is, of course, not listing-order independent -/
theorem orderInput_not_invariant :
    let xs : List OV := [⟨0, [⟨1, 0⟩]⟩, ⟨1, [⟨0, 0⟩]⟩]
    let ys : List OV := [⟨0, [⟨0, 0⟩]⟩, ⟨1, [⟨1, 0⟩]⟩]
    (orderByStrategy 2 0 xs).map (·.pt) ≠ (orderByStrategy 2 0 ys).map (·.pt) := by decide

/-! ## B. the shuffle seed -/

/-- the construction shuffle seed: a stable hash of the SORTED per-vertex hashes -/
def shuffleSeed (stable : List Nat → Nat) (hashes : List Nat) : Nat := stable (sortNat hashes)

theorem seed_perm_invariant (stable : List Nat → Nat) {xs ys : List Nat} (h : xs.Perm ys) :
    shuffleSeed stable xs = shuffleSeed stable ys := by
  unfold shuffleSeed
  rw [(sortNat_eq_iff_perm xs ys).2 h]

/-! ## C. the Delaunay triangulation is unique and a function of the point set -/

theorem sameCellSet_mem {K : Cx} {B : List (List Nat)} (h : sameCellSet K B = true) (k : List Nat) :
    k ∈ K.cells.map cellKey ↔ k ∈ B := by
  unfold sameCellSet at h
  simp only [Bool.and_eq_true, List.all_eq_true, List.contains_iff_mem] at h
  exact ⟨h.1.1 k, h.1.2 k⟩

/-- two complexes whose cell sets both equal the brute-force Delaunay set have the same cells -/
theorem dt_unique {K₁ K₂ : Cx} {B : List (List Nat)} (h₁ : sameCellSet K₁ B = true)
    (h₂ : sameCellSet K₂ B = true) :
    ∀ k, k ∈ K₁.cells.map cellKey ↔ k ∈ K₂.cells.map cellKey :=
  fun k => (sameCellSet_mem h₁ k).trans (sameCellSet_mem h₂ k).symm

/-- and the same number of cells -/
theorem dt_unique_length {K₁ K₂ : Cx} {B : List (List Nat)} (h₁ : sameCellSet K₁ B = true)
    (h₂ : sameCellSet K₂ B = true) : K₁.cells.length = K₂.cells.length := by
  unfold sameCellSet at h₁ h₂
  simp only [Bool.and_eq_true, beq_iff_eq, List.length_map] at h₁ h₂
  omega

/-- the brute-force Delaunay set is literally the same list for any two listings of the points -/
theorem bruteDT_perm_eq (D : Nat) {vp vp' : List (Nat × IPt)} (hp : vp.Perm vp')
    (hnd : (vp.map (·.1)).Nodup) : bruteDT D vp = bruteDT D vp' := by
  unfold bruteDT
  have hids : sortNat (vp.map (·.1)) = sortNat (vp'.map (·.1)) :=
    (sortNat_eq_iff_perm _ _).2 (hp.map _)
  have hlk : (fun i => vp.lookup i) = (fun i => vp'.lookup i) := funext (lookup_perm hp hnd)
  simp only [hids, hlk]
  apply List.filter_congr
  intro S _
  split
  · rfl
  · rw [hp.all_eq]

theorem bruteDT_perm_invariant (D : Nat) {vp vp' : List (Nat × IPt)} (hp : vp.Perm vp')
    (hnd : (vp.map (·.1)).Nodup) : ∀ S, S ∈ bruteDT D vp ↔ S ∈ bruteDT D vp' := by
  intro S
  rw [bruteDT_perm_eq D hp hnd]

/-- general position is a property of the point set -/
theorem generalPosition_perm (D : Nat) {vp vp' : List (Nat × IPt)} (hp : vp.Perm vp')
    (hnd : (vp.map (·.1)).Nodup) : generalPosition D vp = generalPosition D vp' := by
  unfold generalPosition
  have hids : sortNat (vp.map (·.1)) = sortNat (vp'.map (·.1)) :=
    (sortNat_eq_iff_perm _ _).2 (hp.map _)
  have hlk : (fun i => vp.lookup i) = (fun i => vp'.lookup i) := funext (lookup_perm hp hnd)
  simp only [hids, hlk]
  congr 1
  funext S
  split
  · rfl
  · rw [hp.all_eq]

/-- In general position every construction certified against the brute-force Delaunay set yields
the same cells, whatever listing of the points each run (and each certification) used. -/
theorem certified_unique (D : Nat) {K₁ K₂ : Cx} {vp vp' : List (Nat × IPt)} (hp : vp.Perm vp')
    (hnd : (vp.map (·.1)).Nodup)
    (h₁ : sameCellSet K₁ (bruteDT D vp) = true) (h₂ : sameCellSet K₂ (bruteDT D vp') = true) :
    ∀ k, k ∈ K₁.cells.map cellKey ↔ k ∈ K₂.cells.map cellKey := by
  rw [← bruteDT_perm_eq D hp hnd] at h₂
  exact dt_unique h₁ h₂

/-! ## D. non-vacuity -/

/-- three 2-D points `(1,2)`, `(0,3)`, `(1,-1)` in two listings with different input indices -/
example :
    (orderLex [⟨0, [⟨1, 0⟩, ⟨1, 1⟩]⟩, ⟨1, [⟨0, 0⟩, ⟨3, 0⟩]⟩, ⟨2, [⟨1, 0⟩, ⟨-1, 0⟩]⟩]).map (·.pt) =
    (orderLex [⟨0, [⟨1, 0⟩, ⟨-1, 0⟩]⟩, ⟨1, [⟨1, 0⟩, ⟨1, 1⟩]⟩, ⟨2, [⟨0, 0⟩, ⟨3, 0⟩]⟩]).map (·.pt) := by
  decide

/-- the hypotheses of `orderLex_perm_invariant` hold for these listings -/
example :
    let xs : List OV := [⟨0, [⟨1, 0⟩, ⟨1, 1⟩]⟩, ⟨1, [⟨0, 0⟩, ⟨3, 0⟩]⟩, ⟨2, [⟨1, 0⟩, ⟨-1, 0⟩]⟩]
    (∀ v ∈ xs, v.pt.length = 2) ∧ (∀ v ∈ xs, PtNorm v.pt) := by decide

/-- … and the common value is the lexicographic order `(0,3) < (1,-1) < (1,2)` -/
example :
    (orderLex [⟨0, [⟨1, 0⟩, ⟨1, 1⟩]⟩, ⟨1, [⟨0, 0⟩, ⟨3, 0⟩]⟩, ⟨2, [⟨1, 0⟩, ⟨-1, 0⟩]⟩]).map (·.pt) =
      [[⟨0, 0⟩, ⟨3, 0⟩], [⟨1, 0⟩, ⟨-1, 0⟩], [⟨1, 0⟩, ⟨1, 1⟩]] := by decide

/-- the same for the Hilbert ordering in 2-D -/
example :
    (orderHilbert 2 [⟨0, [⟨1, 0⟩, ⟨1, 1⟩]⟩, ⟨1, [⟨0, 0⟩, ⟨3, 0⟩]⟩, ⟨2, [⟨1, 0⟩, ⟨-1, 0⟩]⟩]).map (·.pt) =
    (orderHilbert 2 [⟨0, [⟨1, 0⟩, ⟨-1, 0⟩]⟩, ⟨1, [⟨1, 0⟩, ⟨1, 1⟩]⟩, ⟨2, [⟨0, 0⟩, ⟨3, 0⟩]⟩]).map (·.pt) := by
  decide +kernel

/-- … and for the Morton ordering in 2-D -/
example :
    (orderMorton 2 [⟨0, [⟨1, 0⟩, ⟨1, 1⟩]⟩, ⟨1, [⟨0, 0⟩, ⟨3, 0⟩]⟩, ⟨2, [⟨1, 0⟩, ⟨-1, 0⟩]⟩]).map (·.pt) =
    (orderMorton 2 [⟨0, [⟨1, 0⟩, ⟨-1, 0⟩]⟩, ⟨1, [⟨1, 0⟩, ⟨1, 1⟩]⟩, ⟨2, [⟨0, 0⟩, ⟨3, 0⟩]⟩]).map (·.pt) := by
  decide +kernel

/-- four points in general position: `(0,0) (4,0) (0,4) (5,5)` -/
def gp4 : List (Nat × IPt) := [(0, [0, 0]), (1, [4, 0]), (2, [0, 4]), (3, [5, 5])]
/-- the same points listed in another order -/
def gp4' : List (Nat × IPt) := [(3, [5, 5]), (1, [4, 0]), (0, [0, 0]), (2, [0, 4])]

example : generalPosition 2 gp4 = true := by decide
example : bruteDT 2 gp4 = bruteDT 2 gp4' := by decide
example : bruteDT 2 gp4 = [[0, 1, 2], [1, 2, 3]] := by decide

/-- the hypotheses of `certified_unique` are satisfiable -/
example : sameCellSet
    { D := 2, verts := [], cells := [⟨10, [2, 1, 0], none⟩, ⟨11, [3, 1, 2], none⟩] }
    (bruteDT 2 gp4) = true := by decide

end DM.C14
