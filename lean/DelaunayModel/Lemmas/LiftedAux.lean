/-
Lemmas/LiftedAux.lean — the "lifted" in-sphere determinant (`DM.liftedDet`, Model/Det.lean;
Rust `insphere_lifted`) against the standard one (`DM.insphereDet`).

For `D + 2` points `P 0 … P (D+1)` of dimension `D` (simplex first, query last):

  A = rows `[P i | ‖P i‖² | 1]`                                    `(D+2) × (D+2)`  (`inMat`)
  L = rows `[P (i+1) − P 0 | ‖P (i+1) − P 0‖²]`                     `(D+1) × (D+1)`  (`liftMat`)

  det L = (−1)^(D+1) · det A                                        (`det_liftMat`)

Proof: subtract row 0 of `A` from every other row (`rowSub`, determinant unchanged), expand along
the last column, which is now `(1, 0, …, 0)ᵀ` — this removes row `0` and column `D + 1`, hence the
sign `(−1)^(0 + D + 1)` — and finally observe that the remaining minor `C` satisfies `L = C · U`
with `U` unit upper triangular, because
`‖p − p₀‖² = (‖p‖² − ‖p₀‖²) − 2 p₀ · (p − p₀)`.

The list-level statements `liftedDet_eq` / `insphereDet_translate'` are obtained through the bridge
`det_rowsOf` of Lemmas/DetBridge.lean.
-/
import Mathlib.LinearAlgebra.Matrix.Determinant.Basic
import Mathlib.LinearAlgebra.Matrix.Block
import Mathlib.Algebra.BigOperators.Fin
import DelaunayModel.Model.Det
import DelaunayModel.Lemmas.DetBridge

namespace DM

/-! ## 1. The matrix identity -/

/-- squared Euclidean norm of an integer vector given as a function -/
def nrm {D : Nat} (f : Fin D → ℤ) : ℤ := ∑ j, f j * f j

/-- in-sphere matrix of the points `P 0 … P (D+1)`: rows `[P i | ‖P i‖² | 1]` -/
def inMat {D : Nat} (P : Matrix (Fin (D + 2)) (Fin D) ℤ) :
    Matrix (Fin (D + 2)) (Fin (D + 2)) ℤ :=
  Matrix.of fun i => Fin.snoc (Fin.snoc (P i) (nrm (P i)) : Fin (D + 1) → ℤ) 1

/-- lifted matrix of the points `P 0 … P (D+1)`: rows `[P (i+1) − P 0 | ‖P (i+1) − P 0‖²]` -/
def liftMat {D : Nat} (P : Matrix (Fin (D + 2)) (Fin D) ℤ) :
    Matrix (Fin (D + 1)) (Fin (D + 1)) ℤ :=
  Matrix.of fun i => Fin.snoc (fun j => P i.succ j - P 0 j) (nrm fun j => P i.succ j - P 0 j)

/-- `A` with row `0` subtracted from every other row -/
def rowSub {n : Nat} (A : Matrix (Fin (n + 1)) (Fin (n + 1)) ℤ) :
    Matrix (Fin (n + 1)) (Fin (n + 1)) ℤ :=
  Matrix.of fun i j => if i = 0 then A 0 j else A i j - A 0 j

theorem det_rowSub {n : Nat} (A : Matrix (Fin (n + 1)) (Fin (n + 1)) ℤ) :
    A.det = (rowSub A).det := by
  apply Matrix.det_eq_of_forall_row_eq_smul_add_const (fun i => if i = 0 then 0 else 1) 0 (by simp)
  intro i j
  by_cases hi : i = 0
  · subst hi; simp [rowSub]
  · simp [rowSub, hi]

/-- the unit upper-triangular matrix that turns the column `‖p‖² − ‖p₀‖²` into `‖p − p₀‖²` -/
def colFix {D : Nat} (b : Fin D → ℤ) : Matrix (Fin (D + 1)) (Fin (D + 1)) ℤ :=
  Matrix.of fun j k =>
    if j = k then 1 else if k = Fin.last D then -2 * (Fin.snoc b 0 : Fin (D + 1) → ℤ) j else 0

theorem det_colFix {D : Nat} (b : Fin D → ℤ) : (colFix b).det = 1 := by
  have htri : (colFix b).IsUpperTriangular := by
    intro i j hji
    have hji' : j < i := hji
    have h1 : i ≠ j := fun h => by subst h; exact lt_irrefl _ hji'
    have h2 : j ≠ Fin.last D := fun h => by
      subst h; exact absurd (Fin.le_last i) (not_le.mpr hji')
    simp [colFix, h1, h2]
  rw [Matrix.det_of_isUpperTriangular htri]
  apply Finset.prod_eq_one
  intro i _
  simp [colFix]

/-- the minor of `rowSub (inMat P)` obtained by deleting row `0` and the all-ones column -/
def relMinor {D : Nat} (P : Matrix (Fin (D + 2)) (Fin D) ℤ) :
    Matrix (Fin (D + 1)) (Fin (D + 1)) ℤ :=
  (rowSub (inMat P)).submatrix Fin.succ Fin.castSucc

theorem relMinor_castSucc {D : Nat} (P : Matrix (Fin (D + 2)) (Fin D) ℤ) (i : Fin (D + 1))
    (j : Fin D) : relMinor P i j.castSucc = P i.succ j - P 0 j := by
  simp [relMinor, rowSub, inMat, Fin.succ_ne_zero]

theorem relMinor_last {D : Nat} (P : Matrix (Fin (D + 2)) (Fin D) ℤ) (i : Fin (D + 1)) :
    relMinor P i (Fin.last D) = nrm (P i.succ) - nrm (P 0) := by
  simp [relMinor, rowSub, inMat, Fin.succ_ne_zero]

theorem nrm_sub {D : Nat} (a b : Fin D → ℤ) :
    nrm (fun j => a j - b j) = (∑ j, (a j - b j) * (-2 * b j)) + (nrm a - nrm b) := by
  unfold nrm
  rw [← Finset.sum_sub_distrib, ← Finset.sum_add_distrib]
  apply Finset.sum_congr rfl
  intro j _
  ring

theorem liftMat_eq_mul {D : Nat} (P : Matrix (Fin (D + 2)) (Fin D) ℤ) :
    liftMat P = relMinor P * colFix (P 0) := by
  ext i k
  rw [Matrix.mul_apply, Fin.sum_univ_castSucc]
  refine Fin.lastCases ?_ (fun k' => ?_) k
  · -- last column
    have h1 : ∀ j : Fin D, colFix (P 0) j.castSucc (Fin.last D) = -2 * P 0 j := by
      intro j
      simp [colFix, Fin.castSucc_ne_last]
    have h2 : colFix (P 0) (Fin.last D) (Fin.last D) = 1 := by simp [colFix]
    simp only [h1, h2, relMinor_castSucc, relMinor_last, mul_one]
    simp only [liftMat, Matrix.of_apply, Fin.snoc_last]
    exact nrm_sub (P i.succ) (P 0)
  · -- coordinate column
    have h1 : ∀ j : Fin D, colFix (P 0) j.castSucc k'.castSucc = if j = k' then 1 else 0 := by
      intro j
      simp [colFix, Fin.castSucc_ne_last, Fin.castSucc_inj]
    have h2 : colFix (P 0) (Fin.last D) k'.castSucc = 0 := by
      have : Fin.last D ≠ k'.castSucc := (Fin.castSucc_ne_last k').symm
      simp [colFix, this, Fin.castSucc_ne_last]
    simp only [h1, h2, mul_zero, add_zero, mul_ite, mul_one, Finset.sum_ite_eq', Finset.mem_univ,
      if_true, relMinor_castSucc]
    simp [liftMat]

theorem det_rowSub_inMat {D : Nat} (P : Matrix (Fin (D + 2)) (Fin D) ℤ) :
    (rowSub (inMat P)).det = (-1) ^ (D + 1) * (relMinor P).det := by
  rw [Matrix.det_succ_column (rowSub (inMat P)) (Fin.last (D + 1)), Fin.sum_univ_succ]
  have hrest : ∀ i : Fin (D + 1), rowSub (inMat P) i.succ (Fin.last (D + 1)) = 0 := by
    intro i
    simp [rowSub, inMat, Fin.succ_ne_zero]
  have h0 : rowSub (inMat P) 0 (Fin.last (D + 1)) = 1 := by simp [rowSub, inMat]
  simp only [hrest, h0, mul_zero, zero_mul, Finset.sum_const_zero, add_zero, mul_one]
  simp only [Fin.val_zero, Fin.val_last, zero_add, Fin.succAbove_zero, Fin.succAbove_last]
  rfl

/-- **Matrix form.** `det [P (i+1) − P 0 | ‖·‖²] = (−1)^(D+1) · det [P i | ‖P i‖² | 1]`. -/
theorem det_liftMat {D : Nat} (P : Matrix (Fin (D + 2)) (Fin D) ℤ) :
    (liftMat P).det = (-1) ^ (D + 1) * (inMat P).det := by
  rw [liftMat_eq_mul, Matrix.det_mul, det_colFix, mul_one, det_rowSub (inMat P), det_rowSub_inMat,
    ← mul_assoc, ← pow_add, ← two_mul, pow_mul]
  simp

/-! ## 2. Lists of points as functions -/

theorem sqNorm_append_singleton (l : List Int) (x : Int) : sqNorm (l ++ [x]) = sqNorm l + x * x := by
  simp [sqNorm, List.foldl_append]

theorem sqNorm_ofFn : ∀ {D : Nat} (f : Fin D → ℤ), sqNorm (List.ofFn f) = nrm f
  | 0, f => by simp [sqNorm, nrm]
  | D + 1, f => by
    rw [List.ofFn_succ_last, sqNorm_append_singleton, sqNorm_ofFn, nrm, nrm, Fin.sum_univ_castSucc]

theorem ofFn_snoc {α : Type _} {n : Nat} (f : Fin n → α) (a : α) :
    List.ofFn (Fin.snoc f a : Fin (n + 1) → α) = List.ofFn f ++ [a] := by
  rw [List.ofFn_succ_last]
  simp

theorem zip_sub_ofFn {D : Nat} (f g : Fin D → ℤ) :
    ((List.ofFn f).zip (List.ofFn g)).map (fun (a, b) => a - b) = List.ofFn fun j => f j - g j := by
  apply List.ext_getElem
  · simp
  · intro i h1 h2
    simp

/-- `insphereRows` of points given by a matrix is the list of rows of `inMat` -/
theorem insphereRows_rowsOf {D : Nat} (P : Matrix (Fin (D + 2)) (Fin D) ℤ) {s : List IPt}
    {q : IPt} (h : s ++ [q] = rowsOf P) : insphereRows s q = rowsOf (inMat P) := by
  unfold insphereRows
  rw [h]
  simp only [rowsOf, List.map_ofFn]
  congr 1
  funext i
  simp only [Function.comp_apply, inMat, Matrix.of_apply, ofFn_snoc, sqNorm_ofFn]
  simp

/-- `liftedRows` of points given by a matrix is the list of rows of `liftMat` -/
theorem liftedRows_rowsOf {D : Nat} (P : Matrix (Fin (D + 2)) (Fin D) ℤ) {s : List IPt}
    {q : IPt} (hs : s ≠ []) (h : s ++ [q] = rowsOf P) : liftedRows s q = rowsOf (liftMat P) := by
  obtain ⟨p0, rest, rfl⟩ := List.exists_cons_of_ne_nil hs
  rw [rowsOf, List.ofFn_succ, List.cons_append, List.cons.injEq] at h
  obtain ⟨hp0, hrest⟩ := h
  simp only [liftedRows]
  rw [hrest, hp0]
  simp only [rowsOf, List.map_ofFn]
  congr 1
  funext i
  simp only [Function.comp_apply, liftMat, Matrix.of_apply, ofFn_snoc, zip_sub_ofFn, sqNorm_ofFn]

theorem liftedParity_eq (D : Nat) : liftedParity D = (-1) ^ (D + 1) := by
  unfold liftedParity
  rcases Nat.even_or_odd D with h | h
  · have h2 : D % 2 = 0 := Nat.even_iff.mp h
    simp [h2, pow_succ, h.neg_one_pow]
  · have h2 : D % 2 = 1 := Nat.odd_iff.mp h
    simp [h2, pow_succ, h.neg_one_pow]

theorem liftedParity_mul_self (D : Nat) : liftedParity D * liftedParity D = 1 := by
  unfold liftedParity
  split <;> rfl

/-- the points `s ++ [q]` of a well-formed instance are the rows of a `(D+2) × D` matrix -/
theorem points_eq_rowsOf {D : Nat} {s : List IPt} {q : IPt} (hl : s.length = D + 1)
    (hs : ∀ p ∈ s, p.length = D) (hq : q.length = D) :
    s ++ [q] = rowsOf (matOf (D + 2) D (s ++ [q])) := by
  refine (rowsOf_matOf (by simp [hl]) ?_).symm
  intro r hr
  rcases List.mem_append.mp hr with hr | hr
  · exact hs r hr
  · rw [List.mem_singleton.mp hr]; exact hq

/-! ## 3. The list-level identity -/

/-- **Lifted = ± standard in-sphere determinant**, for every dimension. -/
theorem liftedDet_eq {D : Nat} {s : List IPt} {q : IPt} (hl : s.length = D + 1)
    (hs : ∀ p ∈ s, p.length = D) (hq : q.length = D) :
    liftedDet s q = liftedParity D * insphereDet s q := by
  have hP := points_eq_rowsOf hl hs hq
  have hne : s ≠ [] := by
    intro h; rw [h] at hl; simp at hl
  unfold liftedDet insphereDet
  rw [liftedRows_rowsOf _ hne hP, insphereRows_rowsOf _ hP, det_rowsOf, det_rowsOf, det_liftMat,
    liftedParity_eq]

/-! ## 4. Translation invariance -/

/-- pointwise vector addition -/
def vadd (p t : IPt) : IPt := List.zipWith (· + ·) p t

theorem length_vadd {p t : IPt} {D : Nat} (hp : p.length = D) (ht : t.length = D) :
    (vadd p t).length = D := by
  simp [vadd, hp, ht]

theorem rel_vadd {p p0 t : IPt} {D : Nat} (hp : p.length = D) (hp0 : p0.length = D)
    (ht : t.length = D) :
    ((vadd p t).zip (vadd p0 t)).map (fun (a, b) => a - b) = (p.zip p0).map (fun (a, b) => a - b) := by
  apply List.ext_getElem
  · simp [vadd, hp, hp0, ht]
  · intro i h1 h2
    simp [vadd]

theorem liftedRows_translate {D : Nat} {s : List IPt} {q t : IPt}
    (hs : ∀ p ∈ s, p.length = D) (hq : q.length = D) (ht : t.length = D) :
    liftedRows (s.map (vadd · t)) (vadd q t) = liftedRows s q := by
  cases s with
  | nil => rfl
  | cons p0 rest =>
    have hp0 : p0.length = D := hs p0 (by simp)
    simp only [liftedRows, List.map_cons]
    have : List.map (vadd · t) rest ++ [vadd q t] = (rest ++ [q]).map (vadd · t) := by simp
    rw [this, List.map_map]
    apply List.map_congr_left
    intro p hp
    have hpl : p.length = D := by
      rcases List.mem_append.mp hp with hp | hp
      · exact hs p (by simp [hp])
      · rw [List.mem_singleton.mp hp]; exact hq
    simp only [Function.comp_apply, rel_vadd hpl hp0 ht]

/-- **Translation invariance** of the exact in-sphere determinant. -/
theorem insphereDet_translate' {D : Nat} {s : List IPt} {q t : IPt} (hl : s.length = D + 1)
    (hs : ∀ p ∈ s, p.length = D) (hq : q.length = D) (ht : t.length = D) :
    insphereDet (s.map (vadd · t)) (vadd q t) = insphereDet s q := by
  have hl' : (s.map (vadd · t)).length = D + 1 := by simp [hl]
  have hs' : ∀ p ∈ s.map (vadd · t), p.length = D := by
    intro p hp
    obtain ⟨p', hp', rfl⟩ := List.mem_map.mp hp
    exact length_vadd (hs p' hp') ht
  have h1 := liftedDet_eq hl' hs' (length_vadd hq ht)
  have h2 := liftedDet_eq hl hs hq
  unfold liftedDet at h1 h2
  rw [liftedRows_translate hs hq ht, h2] at h1
  have h3 := congrArg (liftedParity D * ·) h1
  simp only [← mul_assoc, liftedParity_mul_self, one_mul] at h3
  exact h3.symm

end DM
