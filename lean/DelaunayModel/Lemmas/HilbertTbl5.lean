/-
Lemmas/HilbertTbl5.lean — Hilbert curve tables (`curveOk D b = true` by kernel evaluation); split over
several files only so that `lake` checks them in parallel.
-/
import DelaunayModel.Lemmas.HilbertAux
namespace DM.HilbertAux

theorem curveOk_5_2 : curveOk 5 2 = true := by decide +kernel

end DM.HilbertAux
