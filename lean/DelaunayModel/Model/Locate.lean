/-
Model/Locate.lean — point location (src/core/algorithms/locate.rs:447-647): facet walk with a
visited set and a step budget, falling back to a linear scan; the side test compares the exact
orientation of (facet ++ [opposite vertex]) with (facet ++ [query]).
-/
import DelaunayModel.Model.Cx
namespace DM

inductive LocRes where
  | inside (cell : Nat)
  | outside
  deriving Repr, DecidableEq

/-- `is_point_outside_facet`: `some true` iff the query is strictly on the other side of facet `i`
from the opposite vertex; `none` for a cell whose points cannot be resolved -/
def outsideFacet (K : Cx) (emin : Int) (c : Cell) (i : Nat) (q : IPt) : Option Bool :=
  match cellPts K emin c with
  | none => none
  | some s =>
    if s.length != K.D + 1 then none else
    let facet := s.eraseIdx i
    let co := orientSign (facet ++ [s.getD i []])
    let qo := orientSign (facet ++ [q])
    some (co * qo < 0)

/-- first facet index (in slot order) that has the query strictly outside -/
def firstOutside (K : Cx) (emin : Int) (c : Cell) (q : IPt) : Option Nat :=
  (List.range c.vs.length).find? (fun i => outsideFacet K emin c i q == some true)

/-- `locate_by_scan` -/
def locateScan (K : Cx) (emin : Int) (q : IPt) : LocRes :=
  match K.cells.find? (fun c => (firstOutside K emin c q).isNone) with
  | some c => .inside c.id
  | none => .outside

/-- the walk: `fuel` = remaining steps (MAX_STEPS), `visited` = cells seen so far -/
def locateWalk (K : Cx) (emin : Int) (q : IPt) : Nat → Nat → List Nat → LocRes
  | 0, _, _ => locateScan K emin q                      -- step limit ⇒ scan
  | fuel+1, cur, visited =>
    if visited.contains cur then locateScan K emin q    -- cycle ⇒ scan
    else match K.cellById cur with
      | none => .outside                                 -- InvalidCell error in the Rust code
      | some c =>
        match firstOutside K emin c q with
        | none => .inside cur
        | some i =>
          match nbSlot c i with
          | some n => locateWalk K emin q fuel n (cur :: visited)
          | none => .outside

def maxSteps : Nat := 10000

/-- `locate`: a hint that is not a live cell is replaced by the first cell -/
def locate (K : Cx) (emin : Int) (q : IPt) (hint : Option Nat) : Option LocRes :=
  match K.cells with
  | [] => none                                           -- EmptyTriangulation
  | c0 :: _ =>
    let start := match hint with
      | some h => if (K.cellById h).isSome then h else c0.id
      | none => c0.id
    some (locateWalk K emin q maxSteps start [])

/-- exact containment of `q` in the closed simplex of `c` -/
def inClosedCell (K : Cx) (emin : Int) (c : Cell) (q : IPt) : Bool :=
  (List.range c.vs.length).all (fun i => outsideFacet K emin c i q == some false)

/-- strictly beyond boundary facet (c, i) -/
def beyondFacet (K : Cx) (emin : Int) (c : Cell) (i : Nat) (q : IPt) : Bool :=
  outsideFacet K emin c i q == some true

end DM
