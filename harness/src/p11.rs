//! C11 — hull view = true hull (K1) and staleness after every mutation, failed ones included (K2).
use crate::common::{catch, fingerprint, hxs, Ids, Out, Rng};
use crate::gens;
use crate::hist::{self, World};
use crate::tri;
use crate::Cfg;
use delaunay::geometry::algorithms::convex_hull::ConvexHull;
use delaunay::geometry::kernel::FastKernel;
use delaunay::geometry::point::Point;
use delaunay::geometry::traits::coordinate::Coordinate;

type Hull<const D: usize> = ConvexHull<FastKernel<f64>, tri::VData, tri::CData, D>;

/// four guarded entry points → "stale" | "answer" | "err"
fn hull_queries<const D: usize>(h: &Hull<D>, w: &World<D>, p: &[f64; D]) -> Vec<String> {
    hull_queries_dt(h, &w.dt, p)
}

fn hull_queries_dt<const D: usize>(h: &Hull<D>, dt: &tri::DtF<D>, p: &[f64; D]) -> Vec<String> {
    let tri = dt.as_triangulation();
    let pt = Point::new(*p);
    let cls = |s: String| -> String {
        if s.contains("Stale") { "stale".into() } else if s == "ok" { "answer".into() } else { "err".into() }
    };
    let mut v = Vec::new();
    v.push(cls(match catch(|| h.is_point_outside(&pt, tri).map(|_| ()).map_err(|e| format!("{e:?}"))) { Ok(Ok(())) => "ok".into(), Ok(Err(e)) => e, Err(m) => format!("panic{m}") }));
    v.push(cls(match catch(|| h.find_visible_facets(&pt, tri).map(|_| ()).map_err(|e| format!("{e:?}"))) { Ok(Ok(())) => "ok".into(), Ok(Err(e)) => e, Err(m) => format!("panic{m}") }));
    v.push(cls(match catch(|| h.validate(tri).map_err(|e| format!("{e:?}"))) { Ok(Ok(())) => "ok".into(), Ok(Err(e)) => e, Err(m) => format!("panic{m}") }));
    let first = h.get_facet(0).copied();
    v.push(cls(match first {
        Some(fh) => match catch(|| h.is_facet_visible_from_point(&fh, &pt, tri).map(|_| ()).map_err(|e| format!("{e:?}"))) { Ok(Ok(())) => "ok".into(), Ok(Err(e)) => e, Err(m) => format!("panic{m}") },
        None => "ok".into(),
    }));
    // the boolean form of the guard, and the guard after the hull's own cache was invalidated
    // (the creation generation must survive `invalidate_cache`)
    v.push(if h.is_valid_for_triangulation(tri) { "answer".into() } else { "stale".into() });
    h.invalidate_cache();
    v.push(cls(match catch(|| h.is_point_outside(&pt, tri).map(|_| ()).map_err(|e| format!("{e:?}"))) { Ok(Ok(())) => "ok".into(), Ok(Err(e)) => e, Err(m) => format!("panic{m}") }));
    v
}

fn one<const D: usize>(id: &str, rng: &mut Rng, out: &mut Out, nq: usize, nops: usize) {
    let np = D + 2 + rng.below(match D { 2 => 9, 3 => 7, 4 => 4, _ => 3 }) as usize;
    let ps = gens::point_set(rng, D, np);
    let Some(mut w): Option<World<D>> = hist::start_built::<D>(&ps.pts, 1, rng) else { return };
    for _ in 0..rng.below(3) {
        let (p, _) = w.pick_point(rng, 8);
        let _ = w.do_insert(p, false, rng);
    }
    // slot reuse: remove an INTERIOR vertex (the hull is unaffected), then insert a far exterior
    // point, which takes the freed slot with a newer key version and becomes a hull vertex
    for _ in 0..rng.below(3) {
        let mut on_hull: std::collections::HashSet<_> = std::collections::HashSet::new();
        for (_, c) in w.dt.cells() {
            if let Some(nb) = c.neighbors() {
                for (i, n) in nb.iter().enumerate() {
                    if n.is_none() { for (j, vk) in c.vertices().iter().enumerate() { if j != i { on_hull.insert(*vk); } } }
                }
            } else { for vk in c.vertices() { on_hull.insert(*vk); } }
        }
        let interior: Vec<_> = w.live_keys().into_iter().filter(|k| !on_hull.contains(k)).collect();
        if interior.is_empty() || w.dt.number_of_vertices() <= D + 2 { break; }
        let vk = *rng.pick(&interior);
        let _ = w.do_remove(Some(vk), rng);
        let (p, _) = w.pick_point_class(rng, 8, 4);
        let _ = w.do_insert(p, false, rng);
    }
    if w.dt.number_of_cells() == 0 { return; }
    let Ok(hull) = Hull::<D>::from_triangulation(w.dt.as_triangulation()) else { return };
    out.case(id, "hull", &format!("D={D} fam={}", ps.family));
    let mut lines: Vec<String> = Vec::new();
    // hull facets as vertex-id sets
    for fh in hull.facets() {
        let ck = fh.cell_key();
        let fi = fh.facet_index() as usize;
        if let Some(c) = w.dt.tds().get_cell(ck) {
            let vks: Vec<_> = c.vertices().iter().enumerate().filter(|(i, _)| *i != fi).map(|(_, k)| *k).collect();
            let ids = w.vk_ids(&vks);
            lines.push(format!("hf {}", ids.iter().map(|x| x.to_string()).collect::<Vec<_>>().join(" ")));
        }
    }
    let tri_ref = w.dt.as_triangulation();
    out.obs("hull_validate", &match catch(|| hull.validate(tri_ref).map_err(|e| tri::err_kind(&format!("{e:?}")))) { Ok(Ok(())) => "ok".into(), Ok(Err(e)) => format!("err {e}"), Err(m) => format!("panic {m}") });
    let live = w.live_coords();
    for qi in 0..nq {
        let mut q = [0.0f64; D];
        match rng.below(5) {
            0 => { for x in q.iter_mut() { *x = rng.range(-12, 12) as f64; } }
            1 => { let a = rng.pick(&live); let b = rng.pick(&live); for i in 0..D { q[i] = (a[i] + b[i]) / 2.0; } }
            2 => { for x in q.iter_mut() { *x = rng.range(-4, 4) as f64 + 0.5; } }
            3 => { for x in q.iter_mut() { *x = rng.range(-30, 30) as f64; } }
            _ => { let a = rng.pick(&live); q = *a; let ax = rng.below(D as u64) as usize; q[ax] += [1.0, -1.0, 0.5, 4.0][rng.below(4) as usize]; }
        }
        let pt = Point::new(q);
        lines.push(format!("hq q{qi} {}", hxs(&q)));
        let o = catch(|| hull.is_point_outside(&pt, tri_ref).map_err(|e| tri::err_kind(&format!("{e:?}"))));
        let v = catch(|| hull.find_visible_facets(&pt, tri_ref).map_err(|e| tri::err_kind(&format!("{e:?}"))));
        let ot = match o { Ok(Ok(b)) => (b as u8).to_string(), Ok(Err(e)) => format!("err:{e}"), Err(m) => format!("panic:{m}") };
        let vt = match v { Ok(Ok(l)) => l.iter().map(|x| x.to_string()).collect::<Vec<_>>().join(" "), _ => "err".into() };
        lines.push(format!("hr q{qi} outside {ot} visible {vt}"));
        // nearest visible facet, reported as the vertex ids of the facet
        match catch(|| hull.find_nearest_visible_facet(&pt, tri_ref).map_err(|e| tri::err_kind(&format!("{e:?}")))) {
            Ok(Ok(None)) => lines.push(format!("hn q{qi} none")),
            Ok(Ok(Some(fi))) => {
                if let Some(fh) = hull.get_facet(fi) {
                    let fidx = fh.facet_index() as usize;
                    if let Some(c) = w.dt.tds().get_cell(fh.cell_key()) {
                        let vks: Vec<_> = c.vertices().iter().enumerate().filter(|(i, _)| *i != fidx).map(|(_, k)| *k).collect();
                        let ids: Vec<usize> = vks.iter().map(|k| w.dt.tds().get_vertex_by_key(*k).and_then(|v| w.ids.get(&v.uuid())).unwrap_or(999_999)).collect();
                        lines.push(format!("hn q{qi} {}", ids.iter().map(|x| x.to_string()).collect::<Vec<_>>().join(" ")));
                    }
                }
            }
            _ => {}
        }
    }
    let mut ids: Ids = std::mem::take(&mut w.ids);
    tri::export(&w.dt, &mut ids, out);
    w.ids = ids;
    // ---- staleness: apply operations (successful, skipped, failing) and query the OLD hull
    let Ok(hull0) = Hull::<D>::from_triangulation(w.dt.as_triangulation()) else { return };
    let fp0 = fingerprint(w.dt.tds());
    let g_hull0 = w.dt.tds().generation();
    let mut cur_hull = hull;
    for _ in 0..nops {
        let before = fingerprint(w.dt.tds());
        let g0 = w.dt.tds().generation();
        let op = match rng.below(8) {
            0 | 1 => { let (p, _) = w.pick_point(rng, 8); let _ = w.do_insert(p, rng.chance(1, 2), rng); "insert" }
            2 => { let c = *rng.pick(&w.live_coords()); let _ = w.do_insert(c, false, rng); "insert_duplicate" }
            3 => { let keys = w.live_keys(); let vk = *rng.pick(&keys); let _ = w.do_remove(Some(vk), rng); "remove" }
            4 => { let _ = w.do_remove(None, rng); "remove_unknown" }
            5 => { let _ = w.do_flip(rng); "flip" }
            6 => { let _ = catch(|| w.dt.repair_delaunay_with_flips().is_ok()); "repair" }
            _ => { let _ = w.set_policies(rng); "set_policies" }
        };
        let after = fingerprint(w.dt.tds());
        let g1 = w.dt.tds().generation();
        let probe = { let mut p = [0.0f64; D]; p[0] = 0.25; p };
        let qs = hull_queries(&cur_hull, &w, &probe);
        lines.push(format!("gen {op} {} {g0} {g1} {}", (before != after) as u8, qs.join(" ")));
        // the hull created at the start must stay stale for as long as the triangulation differs
        // from the one it was created from, however many operations lie in between
        let qs0 = hull_queries(&hull0, &w, &probe);
        lines.push(format!("gen0 {op} {} {g_hull0} {g1} {}", (after != fp0) as u8, qs0.join(" ")));
        // a fresh hull for the next round (when possible)
        if w.dt.number_of_cells() == 0 { break; }
        match Hull::<D>::from_triangulation(w.dt.as_triangulation()) { Ok(h) => cur_hull = h, Err(_) => break }
    }
    for l in lines { out.line(&l); }
    out.end();
}

/// a hull kept across a removal down to the bootstrap state and a re-bootstrap with another point
fn reboot<const D: usize>(id: &str, rng: &mut Rng, out: &mut Out) {
    let mut w: World<D> = hist::start_empty::<D>(1);
    let pts = gens::to_f(&gens::general_position(rng, D, D + 2, 6), 1.0, 0.0);
    for p in pts.iter().take(D + 1) { let _ = w.do_insert(gens::arr::<D>(p), false, rng); }
    if w.dt.number_of_cells() == 0 { return; }
    let Ok(hull0) = Hull::<D>::from_triangulation(w.dt.as_triangulation()) else { return };
    let fp0 = fingerprint(w.dt.tds());
    let g_hull0 = w.dt.tds().generation();
    out.case(id, "hull", &format!("D={D} fam=reboot"));
    let mut lines: Vec<String> = Vec::new();
    let probe = { let mut p = [0.0f64; D]; p[0] = 0.25; p };
    for step in 0..3 {
        let op = match step {
            0 => { let keys = w.live_keys(); let vk = *rng.pick(&keys); let _ = w.do_remove(Some(vk), rng); "remove" }
            1 => { let _ = w.do_insert(gens::arr::<D>(&pts[D + 1]), false, rng); "insert" }
            _ => { let (p, _) = w.pick_point_class(rng, 8, 4); let _ = w.do_insert(p, false, rng); "insert" }
        };
        let after = fingerprint(w.dt.tds());
        let g1 = w.dt.tds().generation();
        let qs0 = hull_queries(&hull0, &w, &probe);
        lines.push(format!("gen0 {op} {} {g_hull0} {g1} {}", (after != fp0) as u8, qs0.join(" ")));
    }
    if w.dt.number_of_cells() > 0 {
        if let Ok(h) = Hull::<D>::from_triangulation(w.dt.as_triangulation()) {
            for fh in h.facets() {
                let fi = fh.facet_index() as usize;
                if let Some(c) = w.dt.tds().get_cell(fh.cell_key()) {
                    let vks: Vec<_> = c.vertices().iter().enumerate().filter(|(i, _)| *i != fi).map(|(_, k)| *k).collect();
                    let ids = w.vk_ids(&vks);
                    lines.push(format!("hf {}", ids.iter().map(|x| x.to_string()).collect::<Vec<_>>().join(" ")));
                }
            }
        }
    }
    let mut ids: Ids = std::mem::take(&mut w.ids);
    tri::export(&w.dt, &mut ids, out);
    for l in lines { out.line(&l); }
    out.end();
}

/// cells removed through the public Edit API (`repair_local_facet_issues` with an issue record that
/// names one cell three times keeps two entries and removes the third, i.e. that cell; and
/// `Tds::remove_cells_by_keys` on a clone reached through serde is not needed: the Edit API is
/// public): EVERY single cell of a small triangulation in turn, each on its own clone, so cells
/// that no vertex names as its incident cell are covered as well as those that need the
/// incident-cell repair.  The hull of the unmodified triangulation must turn stale.
fn cell_removal<const D: usize>(id: &str, rng: &mut Rng, out: &mut Out) {
    use delaunay::core::collections::{FacetIssuesMap, SmallBuffer};
    let np = D + 3 + rng.below(match D { 2 => 8, 3 => 5, _ => 3 }) as usize;
    let ps = gens::point_set(rng, D, np);
    let Some(mut w): Option<World<D>> = hist::start_built::<D>(&ps.pts, 1, rng) else { return };
    if w.dt.number_of_cells() < 2 { return; }
    let Ok(hull) = Hull::<D>::from_triangulation(w.dt.as_triangulation()) else { return };
    out.case(id, "hull", &format!("D={D} fam=cellrm"));
    let mut lines: Vec<String> = Vec::new();
    for fh in hull.facets() {
        let fi = fh.facet_index() as usize;
        if let Some(c) = w.dt.tds().get_cell(fh.cell_key()) {
            let vks: Vec<_> = c.vertices().iter().enumerate().filter(|(i, _)| *i != fi).map(|(_, k)| *k).collect();
            let ids = w.vk_ids(&vks);
            lines.push(format!("hf {}", ids.iter().map(|x| x.to_string()).collect::<Vec<_>>().join(" ")));
        }
    }
    let probe = { let mut p = [0.0f64; D]; p[0] = 0.25; p };
    let cks: Vec<_> = w.dt.tds().cell_keys().collect();
    for (k, ck) in cks.iter().enumerate().take(40) {
        // clones share the generation counter (Arc): the hull is created from the clone itself,
        // after whatever the previous victims did to the counter
        let mut dt = w.dt.clone();
        let Ok(hull) = Hull::<D>::from_triangulation(dt.as_triangulation()) else { continue };
        let before = fingerprint(dt.tds());
        let g0 = dt.tds().generation();
        let mut issues = FacetIssuesMap::default();
        let mut entry: SmallBuffer<(delaunay::core::triangulation_data_structure::CellKey, u8), 4> = SmallBuffer::new();
        for _ in 0..3 { entry.push((*ck, 0)); }
        issues.insert(0xC11_u64 + k as u64, entry);
        let r = catch(|| dt.as_triangulation_mut().repair_local_facet_issues(&issues).is_ok());
        if r.is_err() { continue; }
        let after = fingerprint(dt.tds());
        let g1 = dt.tds().generation();
        let qs = hull_queries_dt(&hull, &dt, &probe);
        lines.push(format!("gen remove_cell {} {g0} {g1} {}", (before != after) as u8, qs.join(" ")));
    }
    let mut ids: Ids = std::mem::take(&mut w.ids);
    tri::export(&w.dt, &mut ids, out);
    w.ids = ids;
    for l in lines { out.line(&l); }
    out.end();
}

pub fn run(cfg: &Cfg, rng: &mut Rng, out: &mut Out) {
    for i in 0..6 {
        cell_removal::<2>(&format!("cr2_{i}"), rng, out);
        cell_removal::<3>(&format!("cr3_{i}"), rng, out);
        if i < 3 { cell_removal::<4>(&format!("cr4_{i}"), rng, out); }
    }
    for i in 0..4 {
        reboot::<2>(&format!("rb2_{i}"), rng, out);
        reboot::<3>(&format!("rb3_{i}"), rng, out);
        reboot::<4>(&format!("rb4_{i}"), rng, out);
    }
    let thorough = cfg.tier == "thorough";
    let n = if thorough { 400 } else { 200 };
    for i in 0..n {
        let id = format!("u{i}");
        let (nq, nops) = if thorough { (24, 12) } else { (12, 6) };
        match 2 + (i % 4) {
            2 => one::<2>(&id, rng, out, nq, nops),
            3 => one::<3>(&id, rng, out, nq, nops),
            4 => one::<4>(&id, rng, out, nq / 2, nops),
            _ => one::<5>(&id, rng, out, nq / 2, nops),
        }
    }
}
