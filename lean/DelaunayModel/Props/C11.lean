/-
Props/C11.lean — property theorems for C11 (the hull view is the true hull and never serves
stale data).

 * `gen_monotone`, `gen_stale`: for ANY history of mutating calls on one triangulation object in
   which every call satisfies `stepOk` (counter never decreases; it increases whenever the
   observable structure changed — what the K2 monitor checks on the real code after every call,
   failed and rolled-back ones included): if the counter at query time equals the counter at hull
   creation, no call in between changed the structure.  Hence (`guarded_answer_fresh`) a guarded
   query either reports staleness or answers about the structure the hull was created from.
 * `hullFacets_def`: the model's hull = facets incident to exactly one cell (`boundaryFacets`),
   closedness is C05's `closedBoundary_iff`.
 * hull after insertion (last section, Model/Cavity.lean): which facets are hull facets after a
   cavity / hull-extension step, for all cell lists — `hull_after_old_facet`, `hull_after_interior`,
   `hull_after_extension(_conflict)`, `hull_after_new_facet`, `hull_after_mem`, `hull_count_*`.
Scope: histories of calls on one triangulation value.  A fresh Tds moved into place (bootstrap at
D+1 vertices, heuristic rebuild `*self = candidate`) used to restart the counter at 0, which breaks
`stepOk` (the counter goes back) and let an old hull answer about a different triangulation
(`restart_witness`; defect F14, fixed: the replacing Tds continues the sequence).  The K2 monitor
checks `stepOk` itself after every call, and a hull created at the start of a history is queried
after every later call.  Deserialisation creates a NEW value (no hull of it can pre-exist).
Not proved (T3): visibility completeness (point outside ⇒ some facet visible) — needs the facet
description of a convex hull; tied by K1 only.
-/
import DelaunayModel.Model.Gen
import DelaunayModel.Model.Certify
import DelaunayModel.Lemmas.HullStepAux
namespace DM.C11

open DM.Gen

theorem gen_monotone (g : Nat) (os : List Obs) (hc : chained g os = true)
    (hok : ∀ o ∈ os, stepOk o = true) : g ≤ finalGen g os := by
  induction os generalizing g with
  | nil => simp [finalGen]
  | cons o rest ih =>
    simp only [chained, Bool.and_eq_true, beq_iff_eq] at hc
    obtain ⟨hg, hrest⟩ := hc
    have ho := hok o (by simp)
    simp only [stepOk, Bool.and_eq_true, decide_eq_true_eq] at ho
    have := ih o.g1 hrest (fun x hx => hok x (by simp [hx]))
    simp only [finalGen]
    omega

/-- **no stale answers**: equal generations ⇒ nothing changed in between -/
theorem gen_stale (g : Nat) (os : List Obs) (hc : chained g os = true)
    (hok : ∀ o ∈ os, stepOk o = true) (heq : finalGen g os = g) :
    ∀ o ∈ os, o.changed = false := by
  induction os generalizing g with
  | nil => simp
  | cons o rest ih =>
    simp only [chained, Bool.and_eq_true, beq_iff_eq] at hc
    obtain ⟨hg, hrest⟩ := hc
    have ho := hok o (by simp)
    simp only [stepOk, Bool.and_eq_true, decide_eq_true_eq, Bool.or_eq_true, Bool.not_eq_eq_eq_not,
      Bool.not_true] at ho
    have hmono := gen_monotone o.g1 rest hrest (fun x hx => hok x (by simp [hx]))
    simp only [finalGen] at heq
    have h01 : o.g1 = o.g0 := by omega
    intro x hx
    cases hx with
    | head =>
      rcases ho.2 with h | h
      · exact h
      · omega
    | tail _ hx' =>
      have : finalGen o.g1 rest = o.g1 := by omega
      exact ih o.g1 hrest (fun x hx => hok x (by simp [hx])) this x hx'

/-- a guarded query that answers was asked at the creation generation -/
theorem guarded_answer_fresh {α : Type} (creation now : Nat) (f : Unit → α) (a : α)
    (h : guardedQuery creation now f = .answer a) : creation = now ∧ a = f () := by
  unfold guardedQuery at h
  split at h
  · simp at h
  · rename_i hne
    injection h with h
    simp only [bne_iff_ne, ne_eq, Decidable.not_not] at hne
    exact ⟨hne, h.symm⟩

/-- after a change every guarded query reports staleness -/
theorem guarded_stale_after_change {α : Type} (g : Nat) (os : List Obs) (f : Unit → α)
    (hc : chained g os = true) (hok : ∀ o ∈ os, stepOk o = true)
    (hch : ∃ o ∈ os, o.changed = true) : guardedQuery g (finalGen g os) f = .stale := by
  unfold guardedQuery
  have hne : finalGen g os ≠ g := by
    intro heq
    obtain ⟨o, ho, hcg⟩ := hch
    have := gen_stale g os hc hok heq o ho
    simp [this] at hcg
  have : (g != finalGen g os) = true := by
    simp only [bne_iff_ne, ne_eq]; exact fun h => hne h.symm
  simp [this]

/-- why monotonicity is needed (defect F14): if a call may move the counter BACK, a history that
changes the structure twice can end at the creation generation, and the guard then answers.
Remove (4 → 8), re-bootstrap with a restarted counter (8 → 4). -/
theorem restart_witness :
    let os : List Obs := [⟨true, 4, 8⟩, ⟨true, 8, 4⟩]
    chained 4 os = true ∧ (∃ o ∈ os, o.changed = true) ∧ (∃ o ∈ os, stepOk o = false) ∧
    guardedQuery 4 (finalGen 4 os) (fun _ => ()) = .answer () := by
  refine ⟨by decide, ⟨⟨true, 4, 8⟩, by simp, rfl⟩, ⟨⟨true, 8, 4⟩, by simp, by decide⟩, ?_⟩
  simp [guardedQuery, finalGen]

/-- the hull of the model is, by definition, the set of facets incident to exactly one cell -/
theorem hullFacets_def (K : Cx) (k : List Nat) :
    k ∈ boundaryFacets K ↔ ∃ f ∈ allFacets K, f.1 = k ∧ facetDeg K f.1 = 1 := by
  unfold boundaryFacets
  simp only [List.mem_map, List.mem_filter, beq_iff_eq]
  constructor
  · rintro ⟨f, ⟨hf, hd⟩, rfl⟩; exact ⟨f, hf, rfl, hd⟩
  · rintro ⟨f, hf, rfl, hd⟩; exact ⟨f, ⟨hf, hd⟩, rfl⟩

/-- non-vacuity: a 3-call history (unchanged/rolled back, changed, unchanged) is accepted, the
counter moved, and a hull created before it is stale afterwards -/
example : chained 5 [⟨false, 5, 6⟩, ⟨true, 6, 9⟩, ⟨false, 9, 9⟩] = true ∧
    (∀ o ∈ [(⟨false, 5, 6⟩ : Obs), ⟨true, 6, 9⟩, ⟨false, 9, 9⟩], stepOk o = true) ∧
    finalGen 5 [⟨false, 5, 6⟩, ⟨true, 6, 9⟩, ⟨false, 9, 9⟩] = 9 := by decide

end DM.C11

/-! ### nearest visible facet -/
namespace DM.C11
open DM.Hull

/-- nothing visible ⇔ no answer -/
theorem nearest_none_iff (fs : List (Nat × Int)) : nearest fs = none ↔ fs = [] := by
  cases fs with
  | nil => simp [nearest]
  | cons f rest =>
    simp only [nearest, reduceCtorEq, iff_false]
    cases nearest rest with
    | none => simp
    | some g => by_cases h : f.2 ≤ g.2 <;> simp [h]

/-- the answer is one of the visible facets -/
theorem nearest_mem (fs : List (Nat × Int)) (g : Nat × Int) (h : nearest fs = some g) : g ∈ fs := by
  induction fs generalizing g with
  | nil => simp [nearest] at h
  | cons f rest ih =>
    simp only [nearest] at h
    cases hr : nearest rest with
    | none => rw [hr] at h; simp at h; simp [h]
    | some g' =>
      rw [hr] at h
      by_cases hle : f.2 ≤ g'.2
      · simp [hle] at h; simp [h]
      · simp [hle] at h; subst h; exact List.mem_cons_of_mem _ (ih g' hr)

/-- and no visible facet has a smaller key -/
theorem nearest_minimal (fs : List (Nat × Int)) (g : Nat × Int) (h : nearest fs = some g) :
    ∀ f ∈ fs, g.2 ≤ f.2 := by
  induction fs generalizing g with
  | nil => simp [nearest] at h
  | cons f rest ih =>
    simp only [nearest] at h
    intro x hx
    cases hr : nearest rest with
    | none =>
      rw [hr] at h; simp at h; subst h
      have : rest = [] := (nearest_none_iff rest).1 hr
      subst this
      simp at hx; subst hx; exact Int.le_refl _
    | some g' =>
      rw [hr] at h
      have hmin := ih g' hr
      by_cases hle : f.2 ≤ g'.2
      · simp [hle] at h; subst h
        rcases List.mem_cons.1 hx with rfl | hx'
        · exact Int.le_refl _
        · exact Int.le_trans hle (hmin x hx')
      · simp [hle] at h; subst h
        rcases List.mem_cons.1 hx with rfl | hx'
        · omega
        · exact hmin x hx'

example : nearest [(0, 12797), (1, 12477), (2, 14579), (3, 11358)] = some (3, 11358) := by decide

end DM.C11

/-! ## The hull after a cavity / hull-extension step

How the boundary (hull) of the abstract complex changes under `cavityInsertWith cells C F v`
(Model/Cavity.lean: drop the cells `C`, add the cone from the new vertex `v` over the facets `F`),
for ALL cell lists.  `bdry cells` (Lemmas/HullStepAux.lean, `= cavityBoundary cells`) is the list of
facets incident to exactly one cell — the hull facets of `hullFacets_def` on key lists.
 * §h1 facets without `v`: `hull_after_old_facet` (general `C`, `F`), and the readable instances
       `hull_after_interior` (hull unchanged), `hull_after_extension` (visible facets leave),
       `hull_after_extension_conflict` (both at once: conflict region and visible facets)
 * §h2 facets through `v`: `hull_after_new_facet` — cones over the horizon ridges
 * §h3 `hull_after_mem`: every hull facet afterwards is of one of the two kinds
 * §h4 counts: `hull_new_part_length`, `hull_count_extension`, `hull_count_extension_conflict`,
       `hull_count_interior`
 * §h5 examples (`decide`), among them the counterexample `hull_after_interior_needs_le_two`
Combinatorial only: WHICH facets are visible is geometry (see the scope note at the top).
Helper lemmas: Lemmas/HullStepAux.lean, Lemmas/CavityAux.lean.  Core only.
-/
namespace DM.C11

/-! ### §h1 facets without the new vertex -/

/-- **old facets, general step**: a facet without the new vertex is a hull facet afterwards iff its
degree before, minus its degree inside the removed region, plus one if it is coned, is one -/
theorem hull_after_old_facet {cells C F : List (List Nat)} {v : Nat} (hnd : cells.Nodup)
    (hC : C.Nodup) (hsub : ∀ c ∈ C, c ∈ cells) (hF : F.Nodup)
    (hFs : ∀ f ∈ F, f.Pairwise (· < ·)) (hvF : ∀ f ∈ F, v ∉ f) {f : List Nat} (hvf : v ∉ f) :
    f ∈ bdry (cavityInsertWith cells C F v) ↔
      facetCount cells f - facetCount C f + (if f ∈ F then 1 else 0) = 1 := by
  rw [mem_bdry, facetCount_step_old hnd hC hsub hF hFs hvF hvf]

/-- **old facets, hull extension with conflict region** (`V` the visible hull facets, `F` the
symmetric difference of `bdry C` and `V`, e.g. `hullStepFacets C V`): for a facet of degree ≤ 2 the
hull afterwards consists of the old hull facets that are not visible.  Instances: `V = []`
(`hull_after_interior`), `C = []` (`hull_after_extension`, no degree bound needed). -/
theorem hull_after_extension_conflict {cells C F V : List (List Nat)} {v : Nat} (hnd : cells.Nodup)
    (hs : ∀ c ∈ cells, c.Pairwise (· < ·)) (hC : C.Nodup) (hsub : ∀ c ∈ C, c ∈ cells)
    (hfresh : ∀ c ∈ cells, v ∉ c) (hF : F.Nodup) (hVb : ∀ f ∈ V, f ∈ bdry cells)
    (hFV : ∀ f, f ∈ F ↔ (f ∈ bdry C ∧ f ∉ V) ∨ (f ∈ V ∧ f ∉ bdry C))
    {f : List Nat} (hvf : v ∉ f) (h2 : facetCount cells f ≤ 2) :
    f ∈ bdry (cavityInsertWith cells C F v) ↔ f ∈ bdry cells ∧ f ∉ V := by
  have hFsub : ∀ g ∈ F, g ∈ bdry C ∨ g ∈ bdry cells := fun g hg => by
    rcases (hFV g).1 hg with h | h
    · exact Or.inl h.1
    · exact Or.inr (hVb g h.1)
  have hsC : ∀ c ∈ C, c.Pairwise (· < ·) := fun c hc => hs c (hsub c hc)
  have hfC : ∀ c ∈ C, v ∉ c := fun c hc => hfresh c (hsub c hc)
  have hFs : ∀ g ∈ F, g.Pairwise (· < ·) := fun g hg =>
    (hFsub g hg).elim (bdry_lt_sorted hsC g) (bdry_lt_sorted hs g)
  have hvF : ∀ g ∈ F, v ∉ g := fun g hg =>
    (hFsub g hg).elim (bdry_fresh hfC g) (bdry_fresh hfresh g)
  rw [hull_after_old_facet hnd hC hsub hF hFs hvF hvf, mem_bdry]
  have hle := facetCount_sub_le hnd hC hsub f
  have hV : f ∈ V → facetCount cells f = 1 := fun h => mem_bdry.1 (hVb f h)
  have hmem := hFV f
  rw [mem_bdry] at hmem
  by_cases hfV : f ∈ V
  · have h1 := hV hfV
    by_cases hk : facetCount C f = 1
    · have : f ∉ F := fun h => by
        rcases hmem.1 h with h' | h'
        · exact h'.2 hfV
        · exact h'.2 hk
      rw [if_neg this]
      constructor
      · intro h; omega
      · intro h; exact absurd hfV h.2
    · have : f ∈ F := hmem.2 (Or.inr ⟨hfV, hk⟩)
      rw [if_pos this]
      constructor
      · intro h; omega
      · intro h; exact absurd hfV h.2
  · by_cases hk : facetCount C f = 1
    · have : f ∈ F := hmem.2 (Or.inl ⟨hk, hfV⟩)
      rw [if_pos this]
      constructor
      · intro h; exact ⟨by omega, hfV⟩
      · intro h; omega
    · have : f ∉ F := fun h => by
        rcases hmem.1 h with h' | h'
        · exact hk h'.1
        · exact hfV h'.1
      rw [if_neg this]
      constructor
      · intro h; exact ⟨by omega, hfV⟩
      · intro h; omega

/-- **old facets, interior insertion** (every boundary facet of the removed region coned): the hull
does not change as a set of facets — also when the removed region touches the hull (a hull facet of
a removed cell has degree 1 − 1 + 1 = 1: it is now the base of its cone cell).  The degree bound is
needed: `hull_after_interior_needs_le_two`. -/
theorem hull_after_interior {cells C : List (List Nat)} {v : Nat} (hnd : cells.Nodup)
    (hs : ∀ c ∈ cells, c.Pairwise (· < ·)) (hC : C.Nodup) (hsub : ∀ c ∈ C, c ∈ cells)
    (hfresh : ∀ c ∈ cells, v ∉ c) {f : List Nat} (hvf : v ∉ f) (h2 : facetCount cells f ≤ 2) :
    f ∈ bdry (cavityInsert cells C v) ↔ f ∈ bdry cells := by
  have := hull_after_extension_conflict (V := []) hnd hs hC hsub hfresh (cavityBoundary_nodup C)
    (by simp) (fun g => by simp [bdry]) hvf h2
  simpa [cavityInsert] using this

/-- **old facets, pure hull extension** (`C = []`, `F` ⊆ hull the visible facets): the visible facets
stop being hull facets, every other old hull facet stays, nothing else appears -/
theorem hull_after_extension {cells F : List (List Nat)} {v : Nat} (hnd : cells.Nodup)
    (hs : ∀ c ∈ cells, c.Pairwise (· < ·)) (hfresh : ∀ c ∈ cells, v ∉ c) (hF : F.Nodup)
    (hFb : ∀ f ∈ F, f ∈ bdry cells) {f : List Nat} (hvf : v ∉ f) :
    f ∈ bdry (cavityInsertWith cells [] F v) ↔ f ∈ bdry cells ∧ f ∉ F := by
  rw [hull_after_old_facet hnd List.nodup_nil (by simp) hF (fun g hg => bdry_lt_sorted hs g (hFb g hg))
    (fun g hg => bdry_fresh hfresh g (hFb g hg)) hvf, mem_bdry, facetCount_nil]
  by_cases hm : f ∈ F
  · have := mem_bdry.1 (hFb f hm)
    rw [if_pos hm]
    constructor
    · intro h; omega
    · intro h; exact absurd hm h.2
  · rw [if_neg hm]
    constructor
    · intro h; exact ⟨by omega, hm⟩
    · intro h; omega

/-! ### §h2 facets through the new vertex -/

/-- **new facets**: the facet `r ∪ {v}` through the new vertex is a hull facet afterwards iff `r` is
a horizon ridge — it lies in exactly one coned facet -/
theorem hull_after_new_facet {cells F : List (List Nat)} (C : List (List Nat)) {v : Nat}
    (hfresh : ∀ c ∈ cells, v ∉ c) (hFs : ∀ f ∈ F, f.Pairwise (· < ·)) (hvF : ∀ f ∈ F, v ∉ f)
    {r : List Nat} (hr : r.Pairwise (· ≤ ·)) :
    coneCell v r ∈ bdry (cavityInsertWith cells C F v) ↔ ridgeCount F r = 1 := by
  rw [mem_bdry, facetCount_step_cone C hfresh hFs hvF hr]

/-- the same with the horizon written as the boundary of the coned facets -/
theorem hull_after_new_facet' {cells F : List (List Nat)} (C : List (List Nat)) {v : Nat}
    (hfresh : ∀ c ∈ cells, v ∉ c) (hFs : ∀ f ∈ F, f.Pairwise (· < ·)) (hvF : ∀ f ∈ F, v ∉ f)
    {r : List Nat} (hr : r.Pairwise (· ≤ ·)) :
    coneCell v r ∈ bdry (cavityInsertWith cells C F v) ↔ r ∈ bdry F := by
  rw [hull_after_new_facet C hfresh hFs hvF hr, ridgeCount_eq_one_iff]

/-! ### §h3 the full characterisation -/

/-- **the hull after the step**: every hull facet afterwards is an old facet with the degree
condition of `hull_after_old_facet` or the cone over a horizon ridge, and conversely -/
theorem hull_after_mem {cells C F : List (List Nat)} {v : Nat} (hnd : cells.Nodup)
    (hC : C.Nodup) (hsub : ∀ c ∈ C, c ∈ cells) (hfresh : ∀ c ∈ cells, v ∉ c) (hF : F.Nodup)
    (hFs : ∀ f ∈ F, f.Pairwise (· < ·)) (hvF : ∀ f ∈ F, v ∉ f) (g : List Nat) :
    g ∈ bdry (cavityInsertWith cells C F v) ↔
      (v ∉ g ∧ facetCount cells g - facetCount C g + (if g ∈ F then 1 else 0) = 1) ∨
      (∃ r, g = coneCell v r ∧ v ∉ r ∧ r.Pairwise (· < ·) ∧ ridgeCount F r = 1) := by
  constructor
  · intro hg
    by_cases hv : v ∈ g
    · right
      have hgf : g ∈ cellFacets (cavityInsertWith cells C F v) := by
        obtain ⟨c, hc, x, hx, e⟩ := bdry_facet_of hg
        exact mem_cellFacets.2 ⟨c, hc, x, hx, e⟩
      obtain ⟨hgs, hcone⟩ := step_facet_through_v C hfresh hFs hvF hgf hv
      refine ⟨without g v, hcone.symm, not_mem_without_self g v, without_lt_sorted hgs v, ?_⟩
      rw [← hcone] at hg
      exact (hull_after_new_facet C hfresh hFs hvF
        (lt_sorted_le (without_lt_sorted hgs v))).1 hg
    · exact Or.inl ⟨hv, (hull_after_old_facet hnd hC hsub hF hFs hvF hv).1 hg⟩
  · rintro (⟨hv, h⟩ | ⟨r, rfl, _, hr, h⟩)
    · exact (hull_after_old_facet hnd hC hsub hF hFs hvF hv).2 h
    · exact (hull_after_new_facet C hfresh hFs hvF (lt_sorted_le hr)).2 h

/-! ### §h4 counting -/

/-- the hull facets through the new vertex are as many as the horizon ridges -/
theorem hull_new_part_length {cells F : List (List Nat)} (C : List (List Nat)) {v : Nat}
    (hfresh : ∀ c ∈ cells, v ∉ c) (hFs : ∀ f ∈ F, f.Pairwise (· < ·)) (hvF : ∀ f ∈ F, v ∉ f) :
    ((bdry (cavityInsertWith cells C F v)).filter (fun g => g.contains v)).length =
      (bdry F).length := by
  have hrs : ∀ r ∈ bdry F, r.Pairwise (· < ·) := bdry_lt_sorted hFs
  rw [← List.length_map (f := coneCell v) (as := bdry F)]
  apply length_eq_of_nodup_of_mem_iff
    (List.Nodup.sublist List.filter_sublist (bdry_nodup _))
    (map_coneCell_nodup (bdry_nodup F) (fun r hr => lt_sorted_le (hrs r hr)))
  intro g
  rw [List.mem_filter, List.mem_map, List.contains_iff_mem]
  constructor
  · rintro ⟨hg, hv⟩
    have hgf : g ∈ cellFacets (cavityInsertWith cells C F v) := by
      obtain ⟨c, hc, x, hx, e⟩ := bdry_facet_of hg
      exact mem_cellFacets.2 ⟨c, hc, x, hx, e⟩
    obtain ⟨hgs, hcone⟩ := step_facet_through_v C hfresh hFs hvF hgf hv
    refine ⟨without g v, ?_, hcone⟩
    rw [← hcone] at hg
    exact (hull_after_new_facet' C hfresh hFs hvF
      (lt_sorted_le (without_lt_sorted hgs v))).1 hg
  · rintro ⟨r, hr, rfl⟩
    exact ⟨(hull_after_new_facet' C hfresh hFs hvF (lt_sorted_le (hrs r hr))).2 hr,
      self_mem_coneCell v r⟩

/-- if the old hull facets that survive are exactly those outside `V`, the count follows -/
theorem hull_count_of_old_part {cells F V : List (List Nat)} (C : List (List Nat)) {v : Nat}
    (hfresh : ∀ c ∈ cells, v ∉ c) (hFs : ∀ f ∈ F, f.Pairwise (· < ·)) (hvF : ∀ f ∈ F, v ∉ f)
    (hV : V.Nodup) (hVb : ∀ f ∈ V, f ∈ bdry cells)
    (hold : ∀ f, v ∉ f → (f ∈ bdry (cavityInsertWith cells C F v) ↔ f ∈ bdry cells ∧ f ∉ V)) :
    (bdry (cavityInsertWith cells C F v)).length =
      (bdry cells).length - V.length + (bdry F).length := by
  rw [← length_filter_add_length_filter_not (fun g => g.contains v)
    (bdry (cavityInsertWith cells C F v)), hull_new_part_length C hfresh hFs hvF,
    ← length_filter_not_contains (bdry_nodup cells) hV hVb]
  have : ((bdry (cavityInsertWith cells C F v)).filter (fun g => !g.contains v)).length =
      ((bdry cells).filter (fun c => !V.contains c)).length := by
    apply length_eq_of_nodup_of_mem_iff
      (List.Nodup.sublist List.filter_sublist (bdry_nodup _))
      (List.Nodup.sublist List.filter_sublist (bdry_nodup _))
    intro g
    have e1 : (!g.contains v) = true ↔ v ∉ g := by simp
    have e2 : (!V.contains g) = true ↔ g ∉ V := by simp
    rw [List.mem_filter, List.mem_filter, e1, e2]
    constructor
    · rintro ⟨hg, hv⟩
      exact (hold g hv).1 hg
    · rintro ⟨hg, hgV⟩
      have hv : v ∉ g := bdry_fresh hfresh g hg
      exact ⟨(hold g hv).2 ⟨hg, hgV⟩, hv⟩
  omega

/-- **count, pure hull extension**: hull facets afterwards = hull facets before − visible facets +
horizon ridges (`bdry F` is the duplicate-free list of the ridges lying in exactly one facet of `F`) -/
theorem hull_count_extension {cells F : List (List Nat)} {v : Nat} (hnd : cells.Nodup)
    (hs : ∀ c ∈ cells, c.Pairwise (· < ·)) (hfresh : ∀ c ∈ cells, v ∉ c) (hF : F.Nodup)
    (hFb : ∀ f ∈ F, f ∈ bdry cells) :
    (bdry (cavityInsertWith cells [] F v)).length =
      (bdry cells).length - F.length + (bdry F).length :=
  hull_count_of_old_part [] hfresh (fun g hg => bdry_lt_sorted hs g (hFb g hg))
    (fun g hg => bdry_fresh hfresh g (hFb g hg)) hF hFb
    (fun _ hvf => hull_after_extension hnd hs hfresh hF hFb hvf)

/-- **count, hull extension with conflict region**, all facet degrees ≤ 2 -/
theorem hull_count_extension_conflict {cells C F V : List (List Nat)} {v : Nat}
    (hnd : cells.Nodup) (hs : ∀ c ∈ cells, c.Pairwise (· < ·)) (hC : C.Nodup)
    (hsub : ∀ c ∈ C, c ∈ cells) (hfresh : ∀ c ∈ cells, v ∉ c) (hF : F.Nodup) (hV : V.Nodup)
    (hVb : ∀ f ∈ V, f ∈ bdry cells)
    (hFV : ∀ f, f ∈ F ↔ (f ∈ bdry C ∧ f ∉ V) ∨ (f ∈ V ∧ f ∉ bdry C))
    (h2 : ∀ f, facetCount cells f ≤ 2) :
    (bdry (cavityInsertWith cells C F v)).length =
      (bdry cells).length - V.length + (bdry F).length := by
  have hFsub : ∀ g ∈ F, g ∈ bdry C ∨ g ∈ bdry cells := fun g hg => by
    rcases (hFV g).1 hg with h | h
    · exact Or.inl h.1
    · exact Or.inr (hVb g h.1)
  have hsC : ∀ c ∈ C, c.Pairwise (· < ·) := fun c hc => hs c (hsub c hc)
  have hfC : ∀ c ∈ C, v ∉ c := fun c hc => hfresh c (hsub c hc)
  exact hull_count_of_old_part C hfresh
    (fun g hg => (hFsub g hg).elim (bdry_lt_sorted hsC g) (bdry_lt_sorted hs g))
    (fun g hg => (hFsub g hg).elim (bdry_fresh hfC g) (bdry_fresh hfresh g)) hV hVb
    (fun f hvf => hull_after_extension_conflict hnd hs hC hsub hfresh hF hVb hFV hvf (h2 f))

/-- **count, interior insertion**: no old hull facet is lost; the new ones are the cones over
`bdry (cavityBoundary C)`, which is empty when the boundary of the removed region is closed -/
theorem hull_count_interior {cells C : List (List Nat)} {v : Nat}
    (hnd : cells.Nodup) (hs : ∀ c ∈ cells, c.Pairwise (· < ·)) (hC : C.Nodup)
    (hsub : ∀ c ∈ C, c ∈ cells) (hfresh : ∀ c ∈ cells, v ∉ c)
    (h2 : ∀ f, facetCount cells f ≤ 2) :
    (bdry (cavityInsert cells C v)).length = (bdry cells).length + (bdry (bdry C)).length := by
  have := hull_count_extension_conflict (V := []) hnd hs hC hsub hfresh (cavityBoundary_nodup C)
    List.nodup_nil (by simp) (fun g => by simp [bdry]) h2
  simpa [cavityInsert, bdry] using this

/-! ### §h5 non-vacuity -/

/-- 2-D: `3` outside `[0,1,2]` seeing the edge `[1,2]`; horizon = the two end points of the edge -/
theorem ex_hull_extension_2d :
    bdry [[0, 1, 2]] = [[1, 2], [0, 2], [0, 1]] ∧
    bdry (cavityInsertWith [[0, 1, 2]] [] [[1, 2]] 3) = [[0, 2], [0, 1], [2, 3], [1, 3]] ∧
    bdry [[1, 2]] = [[2], [1]] := by decide
/-- interior insertion with both triangles removed (the removed region touches the hull in all
its boundary edges): hull unchanged, no horizon -/
theorem ex_hull_interior_2d :
    bdry [[0, 1, 2], [1, 2, 3]] = [[0, 2], [0, 1], [2, 3], [1, 3]] ∧
    bdry (cavityInsert [[0, 1, 2], [1, 2, 3]] [[0, 1, 2], [1, 2, 3]] 4) =
      [[0, 2], [0, 1], [2, 3], [1, 3]] ∧
    bdry (cavityBoundary [[0, 1, 2], [1, 2, 3]]) = [] := by decide
/-- interior insertion into a fan plus one triangle, the removed region `[1,2,9]`, `[1,2,3]` touches
the hull in `[2,3]`, `[1,3]`: hull unchanged -/
theorem ex_hull_interior_touching :
    bdry [[0, 1, 9], [1, 2, 9], [0, 2, 9], [1, 2, 3]] = [[0, 1], [0, 2], [2, 3], [1, 3]] ∧
    cavityBoundary [[1, 2, 9], [1, 2, 3]] = [[2, 9], [1, 9], [2, 3], [1, 3]] ∧
    bdry (cavityInsert [[0, 1, 9], [1, 2, 9], [0, 2, 9], [1, 2, 3]] [[1, 2, 9], [1, 2, 3]] 10) =
      [[0, 1], [0, 2], [2, 3], [1, 3]] := by decide
/-- hull extension seeing the two adjacent edges `[2,3]`, `[1,3]`: both leave the hull, the common
end point `3` is not on the horizon -/
theorem ex_hull_extension_two_edges :
    bdry (cavityInsertWith [[0, 1, 2], [1, 2, 3]] [] [[2, 3], [1, 3]] 4) =
      [[0, 2], [0, 1], [2, 4], [1, 4]] ∧
    bdry [[2, 3], [1, 3]] = [[2], [1]] := by decide
/-- hull extension with a conflict region: `4` in conflict with `[1,2,3]` sees `[2,3]`; coned are
`[1,2]`, `[1,3]`; `[2,3]` leaves the hull, `[1,3]` stays (as the base of `[1,3,4]`) -/
theorem ex_hull_extension_conflict :
    cavityInsertWith [[0, 1, 2], [1, 2, 3]] [[1, 2, 3]] [[1, 2], [1, 3]] 4 =
      [[0, 1, 2], [1, 2, 4], [1, 3, 4]] ∧
    bdry (cavityInsertWith [[0, 1, 2], [1, 2, 3]] [[1, 2, 3]] [[1, 2], [1, 3]] 4) =
      [[0, 2], [0, 1], [2, 4], [3, 4], [1, 3]] ∧
    bdry [[1, 2], [1, 3]] = [[2], [3]] := by decide
/-- the degree bound in `hull_after_interior` is needed: the edge `[1,2]` lies in three triangles,
two of them are removed; it is not a boundary edge of the removed region, so it is not coned and is
a hull facet afterwards although it was not one before -/
theorem hull_after_interior_needs_le_two :
    facetCount [[0, 1, 2], [1, 2, 3], [1, 2, 4]] [1, 2] = 3 ∧
    [1, 2] ∉ bdry [[0, 1, 2], [1, 2, 3], [1, 2, 4]] ∧
    [1, 2] ∈ bdry (cavityInsert [[0, 1, 2], [1, 2, 3], [1, 2, 4]] [[1, 2, 3], [1, 2, 4]] 5) := by
  decide
/-- 3-D: `4` outside the tetrahedron seeing the face `[1,2,3]`; horizon = its three edges -/
theorem ex_hull_3d :
    bdry (cavityInsertWith [[0, 1, 2, 3]] [] [[1, 2, 3]] 4) =
      [[0, 2, 3], [0, 1, 3], [0, 1, 2], [2, 3, 4], [1, 3, 4], [1, 2, 4]] ∧
    bdry [[1, 2, 3]] = [[2, 3], [1, 3], [1, 2]] := by decide

/-- instances of the general theorems (their hypotheses are satisfiable) -/
example : ∀ f, 3 ∉ f → (f ∈ bdry (cavityInsertWith [[0, 1, 2]] [] [[1, 2]] 3) ↔
    f ∈ bdry [[0, 1, 2]] ∧ f ∉ [[1, 2]]) :=
  fun _ hvf => hull_after_extension (by decide) (by decide) (by decide) (by decide) (by decide) hvf

example : (bdry (cavityInsertWith [[0, 1, 2], [1, 2, 3]] [] [[2, 3], [1, 3]] 4)).length =
    (bdry [[0, 1, 2], [1, 2, 3]]).length - [[2, 3], [1, 3]].length + (bdry [[2, 3], [1, 3]]).length :=
  hull_count_extension (by decide) (by decide) (by decide) (by decide) (by decide)

example : ∀ f, 10 ∉ f → facetCount [[0, 1, 9], [1, 2, 9], [0, 2, 9], [1, 2, 3]] f ≤ 2 →
    (f ∈ bdry (cavityInsert [[0, 1, 9], [1, 2, 9], [0, 2, 9], [1, 2, 3]] [[1, 2, 9], [1, 2, 3]] 10) ↔
      f ∈ bdry [[0, 1, 9], [1, 2, 9], [0, 2, 9], [1, 2, 3]]) :=
  fun _ hvf h2 => hull_after_interior (by decide) (by decide) (by decide) (by decide) (by decide)
    hvf h2

example : hullStepFacets [[1, 2, 3]] [[2, 3]] = [[1, 3], [1, 2]] ∧
    (bdry (cavityInsertWith [[0, 1, 2], [1, 2, 3]] [[1, 2, 3]]
      (hullStepFacets [[1, 2, 3]] [[2, 3]]) 4)).length =
    (bdry [[0, 1, 2], [1, 2, 3]]).length - [[2, 3]].length +
      (bdry (hullStepFacets [[1, 2, 3]] [[2, 3]])).length :=
  ⟨by decide, hull_count_extension_conflict (by decide) (by decide) (by decide) (by decide)
    (by decide) (hullStepFacets_nodup _ (by decide)) (by decide) (by decide)
    (fun _ => mem_hullStepFacets) (facetCount_le_of_forall_mem (by decide))⟩

end DM.C11
