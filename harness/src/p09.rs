//! C09 — duplicate coordinates / UUIDs are rejected in every history (K2).
//! Histories interleave batch build, insert, remove, Edit-API k=1 insert/remove, clone, serde
//! round trip and `as_triangulation_mut`; after each step a set of probes `insert(p + δ)` is run
//! on a CLONE (so probes do not disturb the history) at current and former vertex positions.
//! The Lean side decides from the exact coordinates of the live vertices what each probe must
//! answer (the model's linear-scan semantics).
use crate::common::{catch, hxs, Out, Rng};
use crate::gens;
use crate::hist::{self, World};
use crate::tri;
use crate::Cfg;
use delaunay::core::triangulation_data_structure::Tds;
use delaunay::core::vertex::Vertex;
use delaunay::geometry::kernel::FastKernel;
use delaunay::geometry::point::Point;
use delaunay::geometry::traits::coordinate::Coordinate;
use delaunay::prelude::DelaunayTriangulation;
use delaunay::triangulation::flips::BistellarFlips;

fn probe<const D: usize>(w: &mut World<D>, id: &str, step_op: &str, p: [f64; D], former: bool, delta: &str, reuse_uuid: bool, rng: &mut Rng, out: &mut Out) {
    let mut dt = w.dt.clone();
    let uuid = if reuse_uuid {
        match w.dt.vertices().next() {
            Some((_, v)) => v.uuid(),
            None => rng.uuid(),
        }
    } else {
        rng.uuid()
    };
    let v: Vertex<f64, tri::VData, D> = Vertex::new_with_uuid(Point::new(p), uuid, Some(-7));
    let r = catch(|| dt.insert(v).map(|_| ()).map_err(|e| {
        let full = format!("{e:?}");
        // the duplicate-UUID error arrives wrapped: Construction(Tds(DuplicateUuid { .. }))
        if full.contains("DuplicateUuid") { "DuplicateUuid".to_string() } else { tri::err_kind(&full) }
    }));
    let outcome = match r {
        Ok(Ok(())) => "inserted".to_string(),
        Ok(Err(e)) => e,
        Err(m) => format!("panic:{m}"),
    };
    out.case(id, "dup", &format!("D={D} after={step_op} former={} delta={delta} reuse_uuid={} index={}", former as u8, reuse_uuid as u8, w.dt.verif_has_spatial_index() as u8));
    for (_, lv) in w.dt.vertices() {
        out.line(&format!("lv {}", hxs(lv.point().coords())));
    }
    out.line(&format!("q {}", hxs(&p)));
    out.obs("outcome", &outcome);
    out.end();
}

fn probes<const D: usize>(w: &mut World<D>, hid: usize, s: usize, op: &str, rng: &mut Rng, out: &mut Out, budget: usize) {
    let mut targets: Vec<([f64; D], bool)> = w.live_coords().into_iter().map(|c| (c, false)).collect();
    for r in w.removed.clone() {
        targets.push((r, true));
    }
    rng.shuffle(&mut targets);
    // former positions first in line so they are always probed
    targets.sort_by_key(|t| !t.1);
    let mut n = 0;
    for (c, former) in targets.into_iter().take(budget) {
        for (dn, dx) in [("0", 0.0), ("half", 5e-11), ("two", 2e-10)] {
            let mut p = c;
            p[D - 1] += dx;
            n += 1;
            probe(w, &format!("d{D}_{hid}_{s}_{n}"), op, p, former, dn, false, rng, out);
        }
    }
    // UUID reuse at a far-away position
    let mut far = [0.0f64; D];
    far[0] = 1000.5 + s as f64;
    probe(w, &format!("d{D}_{hid}_{s}_u"), op, far, false, "far", true, rng, out);
}

fn history<const D: usize>(hid: usize, rng: &mut Rng, out: &mut Out, steps: usize, budget: usize) {
    let np = D + 2 + rng.below(5) as usize;
    let ps = gens::point_set(rng, D, np);
    // the batch build's dedup policy decides the cell size of the grid it leaves behind
    let dedup = [0u8, 0, 1, 2, 3, 3][rng.below(6) as usize];
    let Some(mut w): Option<World<D>> = hist::start_built_with::<D>(&ps.pts, 1, &tri::Opts { order: 3, dedup, simplex: 0, retry: 0 }, rng) else { return };
    probes(&mut w, hid, 0, "build", rng, out, budget);
    for s in 1..=steps {
        let op = match rng.below(12) {
            11 => {
                // a vertex whose coordinates the 1e-10 hash grid cannot key (|c| / 1e-10 >= 2^53):
                // the duplicate check must fall back to the linear scan for it
                let mut p = [0.0f64; D];
                for x in p.iter_mut() { *x = rng.range(-4, 4) as f64; }
                let ax = rng.below(D as u64) as usize;
                p[ax] = [1.0e6, -2.0e6, 1099511627776.0, 1.0e15][rng.below(4) as usize] + rng.range(0, 3) as f64;
                let _ = w.do_insert(p, false, rng);
                "insert_far"
            }
            9 | 10 if !w.removed.is_empty() => {
                // a vertex comes back at EXACTLY a former position: the grid bucket there holds the
                // stale key of the removed vertex next to the live one
                let r = *rng.pick(&w.removed);
                let _ = w.do_insert(r, false, rng);
                "reinsert_former"
            }
            0 | 1 | 9 | 10 => {
                let (p, _) = w.pick_point(rng, 8);
                let _ = w.do_insert(p, false, rng);
                "insert"
            }
            2 => {
                let keys = w.live_keys();
                if keys.len() > D + 2 {
                    let vk = *rng.pick(&keys);
                    let _ = w.do_remove(Some(vk), rng);
                }
                "remove"
            }
            3 | 4 => {
                // Edit-API vertex insertion into a random cell at a dyadic interior point
                let cks: Vec<_> = w.dt.cells().map(|(k, _)| k).collect();
                if let Some(ck) = cks.first().copied().map(|_| *rng.pick(&cks)) {
                    let vks = w.dt.tds().get_cell(ck).map(|c| c.vertices().to_vec()).unwrap_or_default();
                    let mut p = [0.0f64; D];
                    for vk in &vks {
                        if let Some(v) = w.dt.tds().get_vertex_by_key(*vk) {
                            for i in 0..D { p[i] += v.point().coords()[i]; }
                        }
                    }
                    for x in p.iter_mut() { *x /= 8.0; }
                    // barycentre-like point (weights 1/8 each + remainder on vertex 0)
                    if let Some(v0) = vks.first().and_then(|k| w.dt.tds().get_vertex_by_key(*k)) {
                        let rem = 1.0 - (vks.len() as f64) / 8.0;
                        for i in 0..D { p[i] += rem * v0.point().coords()[i]; }
                    }
                    let v = w.vertex(p, rng);
                    let _ = catch(|| w.dt.flip_k1_insert(ck, v).is_ok());
                }
                "flip_k1_insert"
            }
            5 => {
                let keys = w.live_keys();
                if keys.len() > D + 2 {
                    let vk = *rng.pick(&keys);
                    let c = w.dt.tds().get_vertex_by_key(vk).map(|v| *v.point().coords());
                    if let Ok(true) = catch(|| w.dt.flip_k1_remove(vk).is_ok()) {
                        if let Some(c) = c { w.removed.push(c); }
                        w.had_removal = true;
                    }
                }
                "flip_k1_remove"
            }
            6 => {
                w.dt = w.dt.clone();
                "clone"
            }
            7 => {
                if let Ok(js) = serde_json::to_string(w.dt.tds()) {
                    if let Ok(tds) = serde_json::from_str::<Tds<f64, tri::VData, tri::CData, D>>(&js) {
                        w.dt = DelaunayTriangulation::from_tds_with_topology_guarantee(tds, FastKernel::new(), tri::guarantee(w.g));
                    }
                }
                "serde"
            }
            _ => {
                let _ = w.dt.as_triangulation_mut();
                "as_triangulation_mut"
            }
        };
        probes(&mut w, hid, s, op, rng, out, budget);
        if w.dt.number_of_cells() > 0 && w.dt.as_triangulation().is_valid().is_err() {
            break;
        }
    }
}

/// bootstrap histories: from an EMPTY triangulation, vertices are inserted one at a time and some
/// are removed again before the initial simplex exists (the Tds is rebuilt when vertex D+1
/// arrives, which renumbers keys while the duplicate grid persists); probes after every step
fn bootstrap<const D: usize>(hid: usize, rng: &mut Rng, out: &mut Out, budget: usize) {
    let mut w: World<D> = hist::start_empty::<D>(1);
    let pts = gens::to_f(&gens::general_position(rng, D, D + 4, 6), 1.0, 0.0);
    let mut next = 0usize;
    for s in 0..(D + 8) {
        let bootstrapping = w.dt.number_of_cells() == 0;
        let op = if !w.removed.is_empty() && rng.chance(1, 3) {
            let r = *rng.pick(&w.removed);
            let _ = w.do_insert(r, false, rng);
            if bootstrapping { "boot_reinsert_former" } else { "reinsert_former" }
        } else if bootstrapping && w.dt.number_of_vertices() >= 1 && rng.chance(1, 3) {
            let keys = w.live_keys();
            let vk = *rng.pick(&keys);
            let _ = w.do_remove(Some(vk), rng);
            "boot_remove"
        } else if next < pts.len() {
            let _ = w.do_insert(gens::arr::<D>(&pts[next]), false, rng);
            next += 1;
            if bootstrapping { "boot_insert" } else { "insert" }
        } else { break };
        if w.dt.number_of_vertices() > 0 { probes(&mut w, 900 + hid, s, op, rng, out, budget); }
    }
}

pub fn run(cfg: &Cfg, rng: &mut Rng, out: &mut Out) {
    for h in 0..(if cfg.tier == "thorough" { 12 } else { 4 }) {
        bootstrap::<2>(h, rng, out, 3);
        bootstrap::<3>(h, rng, out, 3);
        if h % 2 == 0 { bootstrap::<4>(h, rng, out, 2); }
    }
    let thorough = cfg.tier == "thorough";
    let nh = if thorough { 30 } else { 10 };
    let (steps, budget) = if thorough { (14, 8) } else { (8, 4) };
    for h in 0..nh {
        history::<2>(h, rng, out, steps, budget);
        history::<3>(h, rng, out, steps, budget);
        if h % 2 == 0 || thorough {
            history::<4>(h, rng, out, steps / 2 + 1, budget);
            history::<5>(h, rng, out, steps / 2 + 1, budget);
        }
    }
}
