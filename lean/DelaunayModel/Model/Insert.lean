/-
Model/Insert.lean — control structure of one incremental insertion
(src/core/triangulation.rs: `insert_transactional` :2954, `try_insert_with_topology_safety_net`
:3421, `try_star_split_fallback_after_topology_failure` :3455, `validate_after_insertion` :3388).

The geometric work (`try_insert_impl`: locate, conflict region, cavity fill / hull extension) is a
PARAMETER `Env.impl`: any function from a state to a new state + suspicion flag, or an error.
What is modelled: which validation stands between a mutated state and a committed `Inserted`, and
that every non-committed attempt ends with the snapshot restored.
-/
import DelaunayModel.Model.Policy
namespace DM.Insert

open DM.Policy

structure Env (S : Type) where
  /-- `try_insert_impl` on (state, perturbation attempt, use star-split conflict region) -/
  impl : S → Nat → Bool → Except String (S × Bool)
  /-- does the point re-locate strictly inside a cell (star-split precondition) -/
  relocates : S → Bool
  /-- run one of the selectable checks on a state -/
  runCheck : Check → S → Bool
  hasCells : S → Bool
  /-- duplicate-coordinate detection for the (possibly perturbed) point of attempt `i` -/
  isDuplicate : S → Nat → Bool
  /-- is an error retryable with a perturbed point? -/
  retryable : String → Bool
  /-- is the error the duplicate-coordinates error (skip at once, no retry) -/
  dupErr : String → Bool

variable {S : Type}

inductive Outcome (S : Type) where
  | inserted (s : S)
  | skipped (reason : String)
  | failed (reason : String)

/-- `try_insert_with_topology_safety_net`: returns the new state or an error; on error the caller
restores the snapshot (the state this function leaves behind is irrelevant) -/
def safetyNet (env : Env S) (p : VPolicy) (g : Guarantee) (debug : Bool)
    (snapshot : S) (attempt : Nat) : Except String S :=
  match env.impl snapshot attempt false with
  | .error e => .error e
  | .ok (s1, susp0) =>
    let susp := susp0 || attempt > 0
    if !env.hasCells s1 then .ok s1       -- bootstrap: no Level-3 validation
    else if env.runCheck (selectCheck p g susp debug true) s1 then .ok s1
    else
      -- roll back to the snapshot and try the star-split fallback
      if !env.relocates snapshot then .error "topology invalid; star-split needs an interior point"
      else match env.impl snapshot attempt true with
        | .error e => .error ("star-split failed: " ++ e)
        | .ok (s2, _) =>
          -- fallback_star_split makes the flags suspicious
          if env.runCheck (selectCheck p g true debug (env.hasCells s2)) s2 then .ok s2
          else .error "topology invalid after star-split fallback"

/-- `insert_transactional`: attempts `0..=maxPerturb`; every failed attempt restores the snapshot.
Returns the outcome and the state the triangulation is left in. -/
def insertLoop (env : Env S) (p : VPolicy) (g : Guarantee) (debug : Bool) (s0 : S) :
    Nat → Nat → Outcome S × S
  | 0, _ => (.skipped "perturbation attempts exhausted", s0)
  | fuel+1, attempt =>
    if env.isDuplicate s0 attempt then (.skipped "duplicate coordinates", s0)
    else match safetyNet env p g debug s0 attempt with
      | .ok s1 => (.inserted s1, s1)
      | .error e =>
        -- `self.tds = tds_snapshot` on every error path
        if env.dupErr e then (.skipped "duplicate coordinates", s0)
        else if env.retryable e then insertLoop env p g debug s0 fuel (attempt + 1)
        else (.failed e, s0)

def insertTransactional (env : Env S) (p : VPolicy) (g : Guarantee) (debug : Bool)
    (maxPerturb : Nat) (s0 : S) : Outcome S × S :=
  insertLoop env p g debug s0 (maxPerturb + 1) 0

end DM.Insert
