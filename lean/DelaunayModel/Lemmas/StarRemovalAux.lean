/-
Lemmas/StarRemovalAux.lean — helper lemmas about the star-removal model (Model/StarRemoval.lean) used
by the star-removal section of Props/C06.lean: membership in `starOf` / `starKept`, the split
`cells = kept ∪ star` (as a permutation, for lengths and facet counts), a facet avoiding `v` of a
cell containing `v` is the facet opposite `v` (so the degree of such a facet in the star is its
multiplicity in the link), the link is duplicate-free, `starLinkFacets` is the link, `starOnHull`,
`starVerts`, and `stepRemoved` / `stepCreated` of a star removal.  Core only (no Mathlib).
-/
import DelaunayModel.Model.StarRemoval
import DelaunayModel.Lemmas.CavityAux
namespace DM

/-! ### star and kept cells -/

theorem mem_starOf {cells : List (List Nat)} {v : Nat} {c : List Nat} :
    c ∈ starOf cells v ↔ c ∈ cells ∧ v ∈ c := by
  simp [starOf]

theorem mem_starKept {cells : List (List Nat)} {v : Nat} {c : List Nat} :
    c ∈ starKept cells v ↔ c ∈ cells ∧ v ∉ c := by
  simp [starKept]

theorem starFill_eq (cells : List (List Nat)) (v : Nat) (fill : List (List Nat)) :
    starFill cells v fill = starKept cells v ++ fill := rfl

theorem mem_linkOf {cells : List (List Nat)} {v : Nat} {f : List Nat} :
    f ∈ linkOf cells v ↔ ∃ c ∈ cells, v ∈ c ∧ without c v = f := by
  unfold linkOf
  rw [List.mem_map]
  constructor
  · rintro ⟨c, hc, rfl⟩
    exact ⟨c, (mem_starOf.1 hc).1, (mem_starOf.1 hc).2, rfl⟩
  · rintro ⟨c, hc, hv, rfl⟩
    exact ⟨c, mem_starOf.2 ⟨hc, hv⟩, rfl⟩

theorem mem_starVerts {cells : List (List Nat)} {v u : Nat} :
    u ∈ starVerts cells v ↔ ∃ c ∈ starOf cells v, u ∈ c := by
  simp [starVerts]

/-- `cells = kept ∪ star`, as a permutation -/
theorem star_kept_perm (cells : List (List Nat)) (v : Nat) :
    (starKept cells v ++ starOf cells v).Perm cells :=
  by
  have h := List.filter_append_perm (fun c : List Nat => c.contains v) cells
  exact List.perm_append_comm.trans h

theorem length_star_split (cells : List (List Nat)) (v : Nat) :
    cells.length = (starKept cells v).length + (starOf cells v).length := by
  rw [← List.length_append]
  exact (star_kept_perm cells v).length_eq.symm

theorem facetCount_star_split (cells : List (List Nat)) (v : Nat) (f : List Nat) :
    facetCount cells f = facetCount (starKept cells v) f + facetCount (starOf cells v) f := by
  rw [← facetCount_append]
  exact (facetCount_perm (star_kept_perm cells v) f).symm

theorem facetCount_star_le (cells : List (List Nat)) (v : Nat) (f : List Nat) :
    facetCount (starOf cells v) f ≤ facetCount cells f := by
  rw [facetCount_star_split cells v f]
  omega

theorem facetCount_kept_le (cells : List (List Nat)) (v : Nat) (f : List Nat) :
    facetCount (starKept cells v) f ≤ facetCount cells f := by
  rw [facetCount_star_split cells v f]
  omega

theorem facetCount_pos_iff {cells : List (List Nat)} {f : List Nat} :
    0 < facetCount cells f ↔ f ∈ cellFacets cells := by
  unfold facetCount
  exact List.count_pos_iff

/-! ### the facet opposite `v` -/

/-- the only facet avoiding `v` of a cell containing `v` is the facet opposite `v` -/
theorem cell_facet_count_opposite {v : Nat} {c f : List Nat} (hc : c.Pairwise (· < ·)) (hv : v ∈ c)
    (hvf : v ∉ f) : (c.map (without c)).count f = if without c v = f then 1 else 0 := by
  have h := cone_facet_count_base (v := v) (g := without c v) (f := f) (without_lt_sorted hc v)
    (not_mem_without_self c v) hvf
  rw [coneCell_without hc hv] at h
  exact h

/-- the degree in a set of cells through `v` of a facet avoiding `v` is its multiplicity among the
facets opposite `v` -/
theorem facetCount_through {S : List (List Nat)} {v : Nat} {f : List Nat}
    (hs : ∀ c ∈ S, c.Pairwise (· < ·)) (hv : ∀ c ∈ S, v ∈ c) (hvf : v ∉ f) :
    facetCount S f = (S.map (fun c => without c v)).count f := by
  induction S with
  | nil => simp [facetCount_nil]
  | cons c S ih =>
    rw [facetCount_cons, ih (fun a ha => hs a (List.mem_cons_of_mem _ ha))
      (fun a ha => hv a (List.mem_cons_of_mem _ ha)),
      cell_facet_count_opposite (hs c List.mem_cons_self) (hv c List.mem_cons_self) hvf,
      List.map_cons, List.count_cons]
    have e : (if without c v = f then 1 else 0) = (if (without c v == f) = true then 1 else 0) := by
      simp
    rw [e]
    omega

/-- the degree in the star of a facet avoiding `v` is its multiplicity in the link -/
theorem facetCount_star_eq_link_count {cells : List (List Nat)} {v : Nat} {f : List Nat}
    (hs : ∀ c ∈ cells, c.Pairwise (· < ·)) (hvf : v ∉ f) :
    facetCount (starOf cells v) f = (linkOf cells v).count f :=
  facetCount_through (fun c hc => hs c (mem_starOf.1 hc).1) (fun _ hc => (mem_starOf.1 hc).2) hvf

theorem without_self_inj {v : Nat} {a b : List Nat} (ha : a.Pairwise (· < ·))
    (hb : b.Pairwise (· < ·)) (hva : v ∈ a) (hvb : v ∈ b) (h : without a v = without b v) :
    a = b := by
  rw [← coneCell_without ha hva, ← coneCell_without hb hvb, h]

theorem map_without_self_nodup {S : List (List Nat)} {v : Nat} (hnd : S.Nodup)
    (hs : ∀ c ∈ S, c.Pairwise (· < ·)) (hv : ∀ c ∈ S, v ∈ c) :
    (S.map (fun c => without c v)).Nodup := by
  induction S with
  | nil => simp
  | cons a S ih =>
    rw [List.nodup_cons] at hnd
    rw [List.map_cons, List.nodup_cons]
    refine ⟨?_, ih hnd.2 (fun c hc => hs c (List.mem_cons_of_mem _ hc))
      (fun c hc => hv c (List.mem_cons_of_mem _ hc))⟩
    intro hmem
    obtain ⟨b, hb, hab⟩ := List.mem_map.1 hmem
    have := without_self_inj (hs b (List.mem_cons_of_mem _ hb)) (hs a List.mem_cons_self)
      (hv b (List.mem_cons_of_mem _ hb)) (hv a List.mem_cons_self) hab
    exact hnd.1 (this ▸ hb)

theorem starOf_nodup {cells : List (List Nat)} (hnd : cells.Nodup) (v : Nat) :
    (starOf cells v).Nodup :=
  List.Nodup.sublist List.filter_sublist hnd

theorem starKept_nodup {cells : List (List Nat)} (hnd : cells.Nodup) (v : Nat) :
    (starKept cells v).Nodup :=
  List.Nodup.sublist List.filter_sublist hnd

/-- the link facets are distinct: two star cells do not share the facet opposite `v` -/
theorem linkOf_nodup {cells : List (List Nat)} (hnd : cells.Nodup)
    (hs : ∀ c ∈ cells, c.Pairwise (· < ·)) (v : Nat) : (linkOf cells v).Nodup :=
  map_without_self_nodup (starOf_nodup hnd v) (fun c hc => hs c (mem_starOf.1 hc).1)
    (fun _ hc => (mem_starOf.1 hc).2)

/-- degree in the star of a facet avoiding `v`: 1 for a link facet, 0 otherwise -/
theorem facetCount_star_link {cells : List (List Nat)} {v : Nat} {f : List Nat} (hnd : cells.Nodup)
    (hs : ∀ c ∈ cells, c.Pairwise (· < ·)) (hvf : v ∉ f) :
    facetCount (starOf cells v) f = if f ∈ linkOf cells v then 1 else 0 := by
  rw [facetCount_star_eq_link_count hs hvf, (linkOf_nodup hnd hs v).count]

/-! ### `starLinkFacets`, `starOnHull` -/

theorem mem_starLinkFacets {cells : List (List Nat)} {v : Nat} {f : List Nat} :
    f ∈ starLinkFacets cells v ↔ facetCount (starOf cells v) f = 1 ∧ v ∉ f := by
  unfold starLinkFacets
  rw [List.mem_filter, mem_cavityBoundary]
  simp

theorem starLinkFacets_nodup (cells : List (List Nat)) (v : Nat) : (starLinkFacets cells v).Nodup :=
  List.Nodup.sublist List.filter_sublist (cavityBoundary_nodup _)

/-- for sorted duplicate-free cells the boundary facets of the star that avoid `v` are exactly the
link facets (the facets of the star cells opposite `v`) -/
theorem mem_starLinkFacets_iff_link {cells : List (List Nat)} {v : Nat} {f : List Nat}
    (hnd : cells.Nodup) (hs : ∀ c ∈ cells, c.Pairwise (· < ·)) :
    f ∈ starLinkFacets cells v ↔ f ∈ linkOf cells v := by
  rw [mem_starLinkFacets]
  constructor
  · rintro ⟨h1, hvf⟩
    rw [facetCount_star_link hnd hs hvf] at h1
    by_cases hm : f ∈ linkOf cells v
    · exact hm
    · rw [if_neg hm] at h1
      omega
  · intro hm
    have hvf : v ∉ f := by
      obtain ⟨c, _, _, rfl⟩ := mem_linkOf.1 hm
      exact not_mem_without_self c v
    refine ⟨?_, hvf⟩
    rw [facetCount_star_link hnd hs hvf, if_pos hm]

theorem starOnHull_iff {cells : List (List Nat)} {v : Nat} :
    starOnHull cells v = true ↔ ∃ f, facetCount (starOf cells v) f = 1 ∧ v ∈ f := by
  unfold starOnHull
  rw [List.any_eq_true]
  constructor
  · rintro ⟨f, hf, hv⟩
    exact ⟨f, mem_cavityBoundary.1 hf, by simpa using hv⟩
  · rintro ⟨f, hf, hv⟩
    exact ⟨f, mem_cavityBoundary.2 hf, by simpa using hv⟩

/-! ### the observed step of a star removal -/

theorem mem_stepRemoved_iff {pre post : List (List Nat)} {c : List Nat} :
    c ∈ stepRemoved pre post ↔ c ∈ pre ∧ c ∉ post := by
  simp [stepRemoved]

theorem mem_stepCreated_iff {pre post : List (List Nat)} {c : List Nat} :
    c ∈ stepCreated pre post ↔ c ∈ post ∧ c ∉ pre := by
  simp [stepCreated]

/-- if the fill avoids `v` and the cells present before, the removed cells of the step are exactly
the star (as a list) -/
theorem stepRemoved_starFill {pre fill : List (List Nat)} {v : Nat} (hvF : ∀ c ∈ fill, v ∉ c) :
    stepRemoved pre (starFill pre v fill) = starOf pre v := by
  unfold stepRemoved starOf
  apply List.filter_congr
  intro c hc
  by_cases hv : v ∈ c
  · have : c ∉ starFill pre v fill := by
      unfold starFill
      rw [List.mem_append, List.mem_filter]
      rintro (h | h)
      · simp [hv] at h
      · exact hvF c h hv
    simp [hv, this]
  · have : c ∈ starFill pre v fill := by
      unfold starFill
      rw [List.mem_append, List.mem_filter]
      exact Or.inl ⟨hc, by simpa using hv⟩
    simp [hv, this]

/-- … and the created cells are exactly the fill (as a list) -/
theorem stepCreated_starFill {pre fill : List (List Nat)} (v : Nat) (hdis : ∀ c ∈ fill, c ∉ pre) :
    stepCreated pre (starFill pre v fill) = fill := by
  unfold stepCreated starFill
  rw [List.filter_append]
  have a1 : (pre.filter (fun c => !c.contains v)).filter (fun c => !pre.contains c) = [] := by
    rw [List.filter_eq_nil_iff]
    intro a ha
    simp [(List.mem_filter.1 ha).1]
  have a2 : fill.filter (fun c => !pre.contains c) = fill := by
    rw [List.filter_eq_self]
    intro a ha
    simpa using hdis a ha
  rw [a1, a2, List.nil_append]

end DM
