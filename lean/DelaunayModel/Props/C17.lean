/-
Props/C17.lean — property theorems for C17 (insertion orderings, batch dedup policies, and the
Hilbert / Morton index transforms).

Models: `Model/Order.lean`, `Model/Hilbert.lean`.  Helpers: `Lemmas/OrderAux.lean`,
`Lemmas/HilbertAux.lean`; kernel-evaluated tables: `Lemmas/HilbertTbl1..5.lean`,
`Lemmas/MortonTbl.lean` (separate files only so that `lake` checks them in parallel).

A. orderings
 * `insertKeyed_perm`, `sortKeyed_perm`, `orderByKey_perm`, `orderLex_perm`, `orderMorton_perm`,
   `orderHilbert_perm`, `order_perm`: every strategy returns a permutation of its input (all inputs);
 * `sortKeyed_keys_sorted`, `orderByKey_keys_sorted`: primary keys are non-decreasing (all inputs);
 * `cmpKeyed_total`, `cmpKeyed_le_trans`, `sortKeyed_sorted_partial`, `orderByKey_sorted_partial`:
   full `cmpKeyed`-sortedness when all points have one common length;
   `sortKeyed_sorted_fails_ragged`: it is FALSE for points of different lengths (counterexample);
 * `order_input_id`.
B. dedup (any relation `near`)
 * `dedupGreedy_acc`, `dedupGreedy_sublist`, `dedupGreedy_separated`, `dedupGreedy_covered`,
   and the instances `dedupExact_*`, `dedupEps_*`, `dedupExactSorted_*`.
C. Hilbert / Morton
 * `paramsOk_iff`; `interleave_lt`, `mortonCode_lt`, `hilbertIndex_lt` (all inputs);
 * `hilbertPoint` (Lemmas/HilbertAux.lean): the inverse transform; `curveOk D b` the table check;
   `tbl_left_inverse`, `tbl_in_grid`, `tbl_adjacent`, `tbl_adjacent_coord`, `tbl_right_inverse`,
   `hilbert_bijective_of_table`; `curveOk_all` (all `1 ≤ D ≤ 5`, `1 ≤ b`, `D*b ≤ 10`) and the
   resulting `hilbert_left_inverse`, `hilbert_in_grid`, `hilbert_adjacent`, `hilbert_bijective`;
 * `morton_injective_table`, `mortonOk_all` (`1 ≤ D ≤ 3`, `1 ≤ b`, `D*b ≤ 9`), `morton_injective`.
-/
import DelaunayModel.Lemmas.OrderAux
import DelaunayModel.Lemmas.HilbertAux
import DelaunayModel.Lemmas.HilbertTbl1
import DelaunayModel.Lemmas.HilbertTbl2
import DelaunayModel.Lemmas.HilbertTbl3
import DelaunayModel.Lemmas.HilbertTbl4
import DelaunayModel.Lemmas.HilbertTbl5
import DelaunayModel.Lemmas.MortonTbl
namespace DM.C17

open DM DM.Order DM.Hilbert DM.OrderAux DM.HilbertAux

/-! ## A. orderings -/

/-! ### 1–2. every ordering is a permutation of its input -/

theorem insertKeyed_perm (x : Nat × OV) (l : List (Nat × OV)) : (insertKeyed x l).Perm (x :: l) :=
  OrderAux.insertKeyed_perm x l

theorem sortKeyed_perm (l : List (Nat × OV)) : (sortKeyed l).Perm l := OrderAux.sortKeyed_perm l

theorem orderByKey_perm (key : OV → Nat) (vs : List OV) : (orderByKey key vs).Perm vs :=
  OrderAux.orderByKey_perm key vs

theorem orderLex_perm (vs : List OV) : (orderLex vs).Perm vs := orderByKey_perm _ vs

theorem orderMorton_perm (D : Nat) (vs : List OV) : (orderMorton D vs).Perm vs := by
  unfold orderMorton
  split
  · exact orderLex_perm vs
  · exact orderByKey_perm _ vs

theorem orderHilbert_perm (D : Nat) (vs : List OV) : (orderHilbert D vs).Perm vs := by
  unfold orderHilbert
  split
  · exact List.Perm.refl _
  · exact orderByKey_perm _ vs

/-- every strategy returns exactly the input vertices: none invented, none lost, multiplicities kept -/
theorem order_perm (D strategy : Nat) (vs : List OV) : (orderByStrategy D strategy vs).Perm vs := by
  unfold orderByStrategy
  split
  · exact List.Perm.refl _
  · exact orderLex_perm vs
  · exact orderMorton_perm D vs
  · exact orderHilbert_perm D vs

theorem order_length (D strategy : Nat) (vs : List OV) :
    (orderByStrategy D strategy vs).length = vs.length := (order_perm D strategy vs).length_eq

theorem order_mem (D strategy : Nat) (vs : List OV) (v : OV) :
    v ∈ orderByStrategy D strategy vs ↔ v ∈ vs := (order_perm D strategy vs).mem_iff

/-! ### 3. sortedness -/

/-- the primary keys of the sorted list are non-decreasing (all inputs) -/
theorem sortKeyed_keys_sorted (l : List (Nat × OV)) : ((sortKeyed l).map (·.1)).Pairwise (· ≤ ·) := by
  rw [List.pairwise_map]
  exact sortKeyed_keys_sorted' l

/-- members of the sorted keyed list are keyed by `key` -/
theorem mem_sortKeyed_keyed {key : OV → Nat} {vs : List OV} {p : Nat × OV}
    (hp : p ∈ sortKeyed (vs.map (fun v => (key v, v)))) : p = (key p.2, p.2) := by
  obtain ⟨v, _, rfl⟩ := List.mem_map.1 ((OrderAux.sortKeyed_perm _).mem_iff.1 hp)
  rfl

/-- each ordering visits the vertices by non-decreasing key (all inputs) -/
theorem orderByKey_keys_sorted (key : OV → Nat) (vs : List OV) :
    ((orderByKey key vs).map key).Pairwise (· ≤ ·) := by
  unfold orderByKey
  rw [List.pairwise_map, List.pairwise_map]
  refine (sortKeyed_keys_sorted' _).imp_of_mem ?_
  intro a b ha hb hab
  rw [mem_sortKeyed_keyed ha, mem_sortKeyed_keyed hb] at hab
  exact hab

/-- `cmpKeyed` is total (all inputs) -/
theorem cmpKeyed_total {a b : Nat × OV} (h : cmpKeyed a b = .gt) : cmpKeyed b a ≠ .gt :=
  OrderAux.cmpKeyed_total h

/-- `cmpKeyed` is transitive on points of one common length -/
theorem cmpKeyed_le_trans {a b c : Nat × OV} (hab : a.2.pt.length = b.2.pt.length)
    (hbc : b.2.pt.length = c.2.pt.length) :
    cmpKeyed a b ≠ .gt → cmpKeyed b c ≠ .gt → cmpKeyed a c ≠ .gt :=
  OrderAux.cmpKeyed_le_trans hab hbc

/-
Full statement (FALSE, see `sortKeyed_sorted_fails_ragged`):
  theorem sortKeyed_sorted (l) : (sortKeyed l).Pairwise (fun a b => cmpKeyed a b ≠ .gt)
`cmpPt` returns `.eq` as soon as either point runs out of coordinates, so for points of different
lengths `cmpKeyed` is not transitive.  Strongest true variant: all points of one length.
-/
theorem sortKeyed_sorted_partial {n : Nat} (l : List (Nat × OV)) (hl : ∀ p ∈ l, p.2.pt.length = n) :
    (sortKeyed l).Pairwise (fun a b => cmpKeyed a b ≠ .gt) :=
  sortKeyed_sorted_uniform' l hl

/-- for vertices of one dimension, each ordering is sorted by (key, coordinates, input index) -/
theorem orderByKey_sorted_partial {n : Nat} (key : OV → Nat) (vs : List OV)
    (hl : ∀ v ∈ vs, v.pt.length = n) :
    (orderByKey key vs).Pairwise (fun u v => cmpKeyed (key u, u) (key v, v) ≠ .gt) := by
  unfold orderByKey
  rw [List.pairwise_map]
  have hs := sortKeyed_sorted_uniform' (n := n) (vs.map (fun v => (key v, v))) (by
    intro p hp
    obtain ⟨v, hv, rfl⟩ := List.mem_map.1 hp
    exact hl v hv)
  refine hs.imp_of_mem ?_
  intro a b ha hb hab
  rw [mem_sortKeyed_keyed ha, mem_sortKeyed_keyed hb] at hab
  exact hab

/-- counterexample to the unrestricted statement: three vertices with equal keys and points
`[2]`, `[]`, `[1]` (input indices 0, 1, 2) come out in input order, although `[2] > [1]` -/
theorem sortKeyed_sorted_fails_ragged :
    ∃ l : List (Nat × OV), ¬ (sortKeyed l).Pairwise (fun a b => cmpKeyed a b ≠ .gt) := by
  refine ⟨[(0, ⟨0, [⟨2, 0⟩]⟩), (0, ⟨1, []⟩), (0, ⟨2, [⟨1, 0⟩]⟩)], ?_⟩
  intro h
  have hs : sortKeyed [(0, (⟨0, [⟨2, 0⟩]⟩ : OV)), (0, ⟨1, []⟩), (0, ⟨2, [⟨1, 0⟩]⟩)]
      = [(0, ⟨0, [⟨2, 0⟩]⟩), (0, ⟨1, []⟩), (0, ⟨2, [⟨1, 0⟩]⟩)] := by rfl
  rw [hs] at h
  have h02 := (List.pairwise_cons.1 h).1 (0, ⟨2, [⟨1, 0⟩]⟩) (by simp)
  exact h02 (by decide +kernel)

/-! ### 4. the Input strategy -/

theorem order_input_id (D : Nat) (vs : List OV) : orderByStrategy D 0 vs = vs := rfl

/-! ## B. dedup policies: greedy, first occurrence wins, for any relation `near` -/

/-- the accumulator form: the result is `kept` (oldest first) followed by a sublist of `rest` -/
theorem dedupGreedy_acc (near : DPt → DPt → Bool) (kept rest : List OV) :
    ∃ s, s.Sublist rest ∧ dedupGreedy near kept rest = kept.reverse ++ s :=
  ⟨dg near kept rest, dg_sublist near kept rest, dedupGreedy_eq near kept rest⟩

/-- survivors are drawn from the input, in input order, nothing invented or duplicated -/
theorem dedupGreedy_sublist (near : DPt → DPt → Bool) (vs : List OV) :
    (dedupGreedy near [] vs).Sublist vs := by
  rw [dedupGreedy_nil_eq]; exact dg_sublist near [] vs

/-- no survivor is `near` an earlier survivor -/
theorem dedupGreedy_separated (near : DPt → DPt → Bool) (vs : List OV) :
    (dedupGreedy near [] vs).Pairwise (fun u v => near v.pt u.pt = false) := by
  rw [dedupGreedy_nil_eq]; exact dg_separated near [] vs

/-- every input vertex is a survivor or is `near` some survivor -/
theorem dedupGreedy_covered (near : DPt → DPt → Bool) (vs : List OV) :
    ∀ v ∈ vs, v ∈ dedupGreedy near [] vs ∨ ∃ u ∈ dedupGreedy near [] vs, near v.pt u.pt = true := by
  rw [dedupGreedy_nil_eq]
  intro v hv
  rcases dg_covered near [] vs v hv with h | ⟨u, hu, hn⟩
  · exact Or.inl h
  · rcases hu with hu | hu
    · simp at hu
    · exact Or.inr ⟨u, hu, hn⟩

/-- the first input vertex always survives, and comes first -/
theorem dedupGreedy_head (near : DPt → DPt → Bool) (v : OV) (vs : List OV) :
    (dedupGreedy near [] (v :: vs)).head? = some v := by
  rw [dedupGreedy_nil_eq]; simp [dg]

/-! ### 8. the concrete policies -/

theorem dedupExact_sublist (vs : List OV) : (dedupExact vs).Sublist vs :=
  dedupGreedy_sublist sameCoords vs

theorem dedupExact_separated (vs : List OV) :
    (dedupExact vs).Pairwise (fun u v => sameCoords v.pt u.pt = false) :=
  dedupGreedy_separated sameCoords vs

theorem dedupExact_covered (vs : List OV) :
    ∀ v ∈ vs, v ∈ dedupExact vs ∨ ∃ u ∈ dedupExact vs, sameCoords v.pt u.pt = true :=
  dedupGreedy_covered sameCoords vs

theorem dedupEps_sublist (eps2 : Q) (vs : List OV) : (dedupEps eps2 vs).Sublist vs :=
  dedupGreedy_sublist (withinEps eps2) vs

theorem dedupEps_separated (eps2 : Q) (vs : List OV) :
    (dedupEps eps2 vs).Pairwise (fun u v => withinEps eps2 v.pt u.pt = false) :=
  dedupGreedy_separated (withinEps eps2) vs

theorem dedupEps_covered (eps2 : Q) (vs : List OV) :
    ∀ v ∈ vs, v ∈ dedupEps eps2 vs ∨ ∃ u ∈ dedupEps eps2 vs, withinEps eps2 v.pt u.pt = true :=
  dedupGreedy_covered (withinEps eps2) vs

/-- the sorted variant keeps a sublist of the lexicographic order, which is a permutation of the input -/
theorem dedupExactSorted_perm_sublist (vs : List OV) :
    (dedupExactSorted vs).Sublist (orderLex vs) ∧ (orderLex vs).Perm vs :=
  ⟨dedupGreedy_sublist sameCoords (orderLex vs), orderLex_perm vs⟩

theorem dedupExactSorted_separated (vs : List OV) :
    (dedupExactSorted vs).Pairwise (fun u v => sameCoords v.pt u.pt = false) :=
  dedupGreedy_separated sameCoords (orderLex vs)

theorem dedupExactSorted_covered (vs : List OV) :
    ∀ v ∈ vs, v ∈ dedupExactSorted vs ∨ ∃ u ∈ dedupExactSorted vs, sameCoords v.pt u.pt = true :=
  fun v hv => dedupGreedy_covered sameCoords (orderLex vs) v ((orderLex_perm vs).mem_iff.2 hv)

/-- survivors of every policy are input vertices -/
theorem dedupExactSorted_subset (vs : List OV) : ∀ v ∈ dedupExactSorted vs, v ∈ vs :=
  fun _ hv => (orderLex_perm vs).mem_iff.1 ((dedupExactSorted_perm_sublist vs).1.subset hv)

/-! ## C. Hilbert / Morton -/

/-! ### 14. parameter validation -/

theorem paramsOk_iff (D bits : Nat) : paramsOk D bits = true ↔ 1 ≤ bits ∧ bits ≤ 31 ∧ D * bits ≤ 128 := by
  simp [paramsOk, and_assoc]

/-! ### 9. index range, for ALL coordinate lists (each step keeps one bit per coordinate) -/

theorem interleave_lt (bits : Nat) (t : List Nat) : interleave bits t < 2 ^ (bits * t.length) :=
  HilbertAux.interleave_lt bits t

theorem mortonCode_lt (bits : Nat) (q : List Nat) : mortonCode bits q < 2 ^ (bits * q.length) :=
  HilbertAux.interleave_lt bits q

theorem hilbertIndex_lt (bits : Nat) (c : List Nat) : hilbertIndex bits c < 2 ^ (bits * c.length) :=
  HilbertAux.hilbertIndex_lt bits c

/-! ### 10–11. the inverse transform and the tables

`hilbertPoint D bits index` (Lemmas/HilbertAux.lean) de-interleaves `index`, undoes the Gray step
(`t = X[D-1] >> 1; X[i] ^= X[i-1]; X[0] ^= t`) and undoes the excess work with masks `2, 4, …,
2^(bits-1)`, visiting the coordinates from the last to the first.  `curveOk D b` checks on the
whole index range: left inverse, range, adjacency. -/

theorem tbl_left_inverse {D b : Nat} (h : curveOk D b = true) :
    ∀ i, i < 2 ^ (D * b) → hilbertIndex b (hilbertPoint D b i) = i :=
  curveOk_left_inverse h

theorem tbl_left_inverse_bool {D b : Nat} (h : curveOk D b = true) :
    (List.range (2 ^ (D * b))).all (fun i => hilbertIndex b (hilbertPoint D b i) == i) = true := by
  simp only [List.all_eq_true, List.mem_range, beq_iff_eq]
  exact curveOk_left_inverse h

theorem tbl_in_grid {D b : Nat} (h : curveOk D b = true) :
    ∀ i, i < 2 ^ (D * b) →
      (hilbertPoint D b i).length = D ∧ ∀ x ∈ hilbertPoint D b i, x < 2 ^ b :=
  curveOk_in_grid h

/-- consecutive curve points are at L1 distance exactly 1 -/
theorem tbl_adjacent {D b : Nat} (h : curveOk D b = true) :
    ∀ i, i + 1 < 2 ^ (D * b) → l1 (hilbertPoint D b i) (hilbertPoint D b (i + 1)) = 1 :=
  curveOk_adjacent h

/-- … i.e. they agree in all coordinates but one, where they differ by exactly 1 -/
theorem tbl_adjacent_coord {D b : Nat} (h : curveOk D b = true) :
    ∀ i, i + 1 < 2 ^ (D * b) → ∃ pre x y post,
      hilbertPoint D b i = pre ++ x :: post ∧ hilbertPoint D b (i + 1) = pre ++ y :: post ∧
        (x + 1 = y ∨ y + 1 = x) := by
  intro i hi
  have h1 := curveOk_in_grid h i (by omega)
  have h2 := curveOk_in_grid h (i + 1) hi
  exact l1_eq_one (h1.1.trans h2.1.symm) (curveOk_adjacent h i hi)

/-- right inverse on the whole grid (by pigeonhole from the left inverse) -/
theorem tbl_right_inverse {D b : Nat} (h : curveOk D b = true) (c : List Nat)
    (hl : c.length = D) (hc : ∀ x ∈ c, x < 2 ^ b) :
    hilbertIndex b c < 2 ^ (D * b) ∧ hilbertPoint D b (hilbertIndex b c) = c :=
  curveOk_right_inverse h ⟨hl, hc⟩

/-! ### 12. bijectivity from a table -/

/-- `hilbertIndex b` restricted to the grid `[0,2^b)^D` is a bijection onto `[0, 2^(D*b))` -/
theorem hilbert_bijective_of_table {D b : Nat} (h : curveOk D b = true) :
    (∀ i, i < 2 ^ (D * b) → ∃ c, c.length = D ∧ (∀ x ∈ c, x < 2 ^ b) ∧ hilbertIndex b c = i) ∧
    (∀ c, c.length = D → (∀ x ∈ c, x < 2 ^ b) → hilbertIndex b c < 2 ^ (D * b)) ∧
    (∀ c₁ c₂, c₁.length = D → (∀ x ∈ c₁, x < 2 ^ b) → c₂.length = D → (∀ x ∈ c₂, x < 2 ^ b) →
      hilbertIndex b c₁ = hilbertIndex b c₂ → c₁ = c₂) := by
  refine ⟨?_, ?_, ?_⟩
  · intro i hi
    obtain ⟨h1, h2⟩ := curveOk_in_grid h i hi
    exact ⟨hilbertPoint D b i, h1, h2, curveOk_left_inverse h i hi⟩
  · intro c hl hc
    exact (curveOk_right_inverse h ⟨hl, hc⟩).1
  · intro c₁ c₂ hl₁ hc₁ hl₂ hc₂ he
    rw [← (curveOk_right_inverse h ⟨hl₁, hc₁⟩).2, ← (curveOk_right_inverse h ⟨hl₂, hc₂⟩).2, he]

/-! ### the tables: every `(D, b)` with `1 ≤ D ≤ 5`, `1 ≤ b`, `D * b ≤ 10` -/

theorem curveOk_all {D b : Nat} (hD : 1 ≤ D) (hD' : D ≤ 5) (hb : 1 ≤ b) (h : D * b ≤ 10) :
    curveOk D b = true := by
  have hDs : D = 1 ∨ D = 2 ∨ D = 3 ∨ D = 4 ∨ D = 5 := by omega
  rcases hDs with rfl | rfl | rfl | rfl | rfl
  · have hbs : b = 1 ∨ b = 2 ∨ b = 3 ∨ b = 4 ∨ b = 5 ∨ b = 6 ∨ b = 7 ∨ b = 8 ∨ b = 9 ∨ b = 10 := by omega
    rcases hbs with rfl | rfl | rfl | rfl | rfl | rfl | rfl | rfl | rfl | rfl
    · exact curveOk_1_1
    · exact curveOk_1_2
    · exact curveOk_1_3
    · exact curveOk_1_4
    · exact curveOk_1_5
    · exact curveOk_1_6
    · exact curveOk_1_7
    · exact curveOk_1_8
    · exact curveOk_1_9
    · exact curveOk_1_10
  · have hbs : b = 1 ∨ b = 2 ∨ b = 3 ∨ b = 4 ∨ b = 5 := by omega
    rcases hbs with rfl | rfl | rfl | rfl | rfl
    · exact curveOk_2_1
    · exact curveOk_2_2
    · exact curveOk_2_3
    · exact curveOk_2_4
    · exact curveOk_2_5
  · have hbs : b = 1 ∨ b = 2 ∨ b = 3 := by omega
    rcases hbs with rfl | rfl | rfl
    · exact curveOk_3_1
    · exact curveOk_3_2
    · exact curveOk_3_3
  · have hbs : b = 1 ∨ b = 2 := by omega
    rcases hbs with rfl | rfl
    · exact curveOk_4_1
    · exact curveOk_4_2
  · have hbs : b = 1 ∨ b = 2 := by omega
    rcases hbs with rfl | rfl
    · exact curveOk_5_1
    · exact curveOk_5_2

variable {D b : Nat}

theorem hilbert_left_inverse (hD : 1 ≤ D) (hD' : D ≤ 5) (hb : 1 ≤ b) (h : D * b ≤ 10) :
    ∀ i, i < 2 ^ (D * b) → hilbertIndex b (hilbertPoint D b i) = i :=
  tbl_left_inverse (curveOk_all hD hD' hb h)

theorem hilbert_in_grid (hD : 1 ≤ D) (hD' : D ≤ 5) (hb : 1 ≤ b) (h : D * b ≤ 10) :
    ∀ i, i < 2 ^ (D * b) →
      (hilbertPoint D b i).length = D ∧ ∀ x ∈ hilbertPoint D b i, x < 2 ^ b :=
  tbl_in_grid (curveOk_all hD hD' hb h)

theorem hilbert_adjacent (hD : 1 ≤ D) (hD' : D ≤ 5) (hb : 1 ≤ b) (h : D * b ≤ 10) :
    ∀ i, i + 1 < 2 ^ (D * b) → ∃ pre x y post,
      hilbertPoint D b i = pre ++ x :: post ∧ hilbertPoint D b (i + 1) = pre ++ y :: post ∧
        (x + 1 = y ∨ y + 1 = x) :=
  tbl_adjacent_coord (curveOk_all hD hD' hb h)

theorem hilbert_bijective (hD : 1 ≤ D) (hD' : D ≤ 5) (hb : 1 ≤ b) (h : D * b ≤ 10) :
    (∀ i, i < 2 ^ (D * b) → ∃ c, c.length = D ∧ (∀ x ∈ c, x < 2 ^ b) ∧ hilbertIndex b c = i) ∧
    (∀ c, c.length = D → (∀ x ∈ c, x < 2 ^ b) → hilbertIndex b c < 2 ^ (D * b)) ∧
    (∀ c₁ c₂, c₁.length = D → (∀ x ∈ c₁, x < 2 ^ b) → c₂.length = D → (∀ x ∈ c₂, x < 2 ^ b) →
      hilbertIndex b c₁ = hilbertIndex b c₂ → c₁ = c₂) :=
  hilbert_bijective_of_table (curveOk_all hD hD' hb h)

/-! ### 13. Morton codes are injective on the grid -/

/-- `deinterleave D b` inverts `mortonCode b` on the grid, hence distinct cells get distinct codes -/
theorem morton_injective_table (h : mortonOk D b = true) :
    ∀ c₁ c₂, c₁.length = D → (∀ x ∈ c₁, x < 2 ^ b) → c₂.length = D → (∀ x ∈ c₂, x < 2 ^ b) →
      mortonCode b c₁ = mortonCode b c₂ → c₁ = c₂ := by
  intro c₁ c₂ hl₁ hc₁ hl₂ hc₂ he
  rw [← (mortonOk_parts h ⟨hl₁, hc₁⟩).2, ← (mortonOk_parts h ⟨hl₂, hc₂⟩).2, he]

theorem morton_round_trip_table (h : mortonOk D b = true) (c : List Nat) (hl : c.length = D)
    (hc : ∀ x ∈ c, x < 2 ^ b) :
    mortonCode b c < 2 ^ (D * b) ∧ deinterleave D b (mortonCode b c) = c :=
  mortonOk_parts h ⟨hl, hc⟩

theorem mortonOk_all {D b : Nat} (hD : 1 ≤ D) (hD' : D ≤ 3) (hb : 1 ≤ b) (h : D * b ≤ 9) :
    mortonOk D b = true := by
  have hDs : D = 1 ∨ D = 2 ∨ D = 3 := by omega
  rcases hDs with rfl | rfl | rfl
  · have hbs : b = 1 ∨ b = 2 ∨ b = 3 ∨ b = 4 ∨ b = 5 ∨ b = 6 ∨ b = 7 ∨ b = 8 ∨ b = 9 := by omega
    rcases hbs with rfl | rfl | rfl | rfl | rfl | rfl | rfl | rfl | rfl
    · exact mortonOk_1_1
    · exact mortonOk_1_2
    · exact mortonOk_1_3
    · exact mortonOk_1_4
    · exact mortonOk_1_5
    · exact mortonOk_1_6
    · exact mortonOk_1_7
    · exact mortonOk_1_8
    · exact mortonOk_1_9
  · have hbs : b = 1 ∨ b = 2 ∨ b = 3 ∨ b = 4 := by omega
    rcases hbs with rfl | rfl | rfl | rfl
    · exact mortonOk_2_1
    · exact mortonOk_2_2
    · exact mortonOk_2_3
    · exact mortonOk_2_4
  · have hbs : b = 1 ∨ b = 2 ∨ b = 3 := by omega
    rcases hbs with rfl | rfl | rfl
    · exact mortonOk_3_1
    · exact mortonOk_3_2
    · exact mortonOk_3_3

theorem morton_injective (hD : 1 ≤ D) (hD' : D ≤ 3) (hb : 1 ≤ b) (h : D * b ≤ 9) :
    ∀ c₁ c₂, c₁.length = D → (∀ x ∈ c₁, x < 2 ^ b) → c₂.length = D → (∀ x ∈ c₂, x < 2 ^ b) →
      mortonCode b c₁ = mortonCode b c₂ → c₁ = c₂ :=
  morton_injective_table (mortonOk_all hD hD' hb h)

end DM.C17
