/-
Lemmas/HandshakeAux.lean — double counting over lists, used by the facet "handshake" theorems of
Props/C15.lean:
 * a list is as long as the sum, over any duplicate-free enumeration of its keys, of the number of
   entries carrying each key (`length_eq_sum_countP`),
 * a sum of ones and twos splits into `2 * #twos + #ones` (`sum_map_one_or_two`),
 * filtering a list by "occurs exactly once" leaves a duplicate-free list (`filter_count_one_nodup`),
 * the facet incidences `allFacets K`: their number, `facetDeg` as a `count`, `boundaryFacets` as a
   filter of the key list.
Core only (no Mathlib).
-/
import DelaunayModel.Lemmas.QueryAux
namespace DM

/-! ### sums over lists -/

theorem sum_map_add {α : Type} (D : List α) (f g : α → Nat) :
    (D.map (fun k => f k + g k)).sum = (D.map f).sum + (D.map g).sum := by
  induction D with
  | nil => rfl
  | cons k ks ih =>
    simp only [List.map_cons, List.sum_cons, ih]
    omega

theorem sum_map_congr {α : Type} (D : List α) (f g : α → Nat) (h : ∀ k ∈ D, f k = g k) :
    (D.map f).sum = (D.map g).sum := by
  induction D with
  | nil => rfl
  | cons k ks ih =>
    simp only [List.map_cons, List.sum_cons]
    rw [h k List.mem_cons_self, ih (fun a ha => h a (List.mem_cons_of_mem _ ha))]

theorem sum_map_const {α : Type} (D : List α) (c : Nat) :
    (D.map (fun _ => c)).sum = c * D.length := by
  induction D with
  | nil => rfl
  | cons k ks ih =>
    simp only [List.map_cons, List.sum_cons, List.length_cons, ih, Nat.mul_succ]
    omega

/-- the indicator of `y`, summed over `D`, counts the occurrences of `y` in `D` -/
theorem sum_map_indicator {α : Type} [BEq α] [LawfulBEq α] (D : List α) (y : α) :
    (D.map (fun k => if (y == k) = true then 1 else 0)).sum = D.count y := by
  induction D with
  | nil => rfl
  | cons k ks ih =>
    simp only [List.map_cons, List.sum_cons, List.count_cons, ih]
    by_cases h : y = k
    · subst h
      simp
      omega
    · have h1 : (y == k) = false := by simpa using h
      have h2 : (k == y) = false := by simpa using fun e : k = y => h e.symm
      simp [h1, h2]

/-- double counting: the length of `l` is the sum, over a duplicate-free list `D` containing every
key of `l`, of the number of entries of `l` with that key -/
theorem length_eq_sum_countP {α β : Type} [BEq α] [LawfulBEq α] (key : β → α) (l : List β)
    (D : List α) (hD : D.Nodup) (hmem : ∀ x ∈ l, key x ∈ D) :
    l.length = (D.map (fun k => l.countP (fun x => key x == k))).sum := by
  induction l with
  | nil => simp [sum_map_const]
  | cons x xs ih =>
    have ih' := ih (fun a ha => hmem a (List.mem_cons_of_mem _ ha))
    simp only [List.countP_cons, List.length_cons]
    rw [sum_map_add D (fun k => xs.countP (fun x => key x == k))
      (fun k => if (key x == k) = true then 1 else 0), ← ih', sum_map_indicator, hD.count,
      if_pos (hmem x List.mem_cons_self)]

/-- a sum of ones and twos -/
theorem sum_map_one_or_two {α : Type} (D : List α) (f : α → Nat) (h : ∀ k ∈ D, f k = 1 ∨ f k = 2) :
    (D.map f).sum =
      2 * (D.filter (fun k => f k == 2)).length + (D.filter (fun k => f k == 1)).length := by
  induction D with
  | nil => rfl
  | cons k ks ih =>
    have ih' := ih (fun a ha => h a (List.mem_cons_of_mem _ ha))
    simp only [List.map_cons, List.sum_cons, ih', List.filter_cons]
    rcases h k List.mem_cons_self with h1 | h2
    · simp [h1]
      omega
    · simp [h2]
      omega

/-! ### entries that occur exactly once -/

/-- keeping only the entries that satisfy a predicate which forces "occurs once" leaves no
duplicates -/
theorem filter_count_one_nodup {α : Type} [BEq α] [LawfulBEq α] (l : List α) (p : α → Bool)
    (hp : ∀ a, p a = true → l.count a = 1) : (l.filter p).Nodup := by
  rw [List.nodup_iff_count]
  intro a
  by_cases h : p a = true
  · rw [List.count_filter h, hp a h]
    exact Nat.le_refl 1
  · have : a ∉ l.filter p := fun hm => h (List.mem_filter.1 hm).2
    rw [List.count_eq_zero.2 this]
    exact Nat.zero_le 1

/-- two duplicate-free lists with the same members have the same length -/
theorem length_eq_of_nodup_of_mem_iff {α : Type} {l₁ l₂ : List α} (h₁ : l₁.Nodup) (h₂ : l₂.Nodup)
    (h : ∀ a, a ∈ l₁ ↔ a ∈ l₂) : l₁.length = l₂.length :=
  ((List.perm_ext_iff_of_nodup h₁ h₂).2 h).length_eq

/-! ### the facet incidences -/

/-- the facet keys in incidence order (one entry per (cell, slot) pair) -/
theorem facetDeg_eq_count (K : Cx) (k : List Nat) :
    facetDeg K k = ((allFacets K).map (·.1)).count k := by
  unfold facetDeg
  rw [List.count_eq_countP, List.countP_map]
  rfl

theorem boundaryFacets_eq_filter (K : Cx) :
    boundaryFacets K = ((allFacets K).map (·.1)).filter (fun k => facetDeg K k == 1) := by
  unfold boundaryFacets
  rw [List.filter_map]
  rfl

theorem facetsOf_length (cells : List Cell) (n : Nat) (hlen : ∀ c ∈ cells, c.vs.length = n) :
    (facetsOf cells).length = n * cells.length := by
  induction cells with
  | nil => rfl
  | cons c cs ih =>
    unfold facetsOf at ih ⊢
    rw [List.flatMap_cons, List.length_append, List.length_map, List.length_range,
      ih (fun d hd => hlen d (List.mem_cons_of_mem _ hd)), hlen c List.mem_cons_self,
      List.length_cons, Nat.mul_succ]
    omega

end DM
