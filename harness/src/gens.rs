//! Structured point-set generators.  Everything is produced on integer or dyadic grids so that
//! the Lean side can decide every sign exactly, and degenerate configurations (cospherical,
//! coplanar, duplicate) have probability one where a family asks for them.
#![allow(dead_code)]

use crate::common::Rng;

pub type Pt = Vec<f64>;

/// exact determinant of a small integer matrix (Bareiss, i128) — used only to *steer generators*
/// (general-position rejection sampling); the oracle is the Lean side.
pub fn idet(mut m: Vec<Vec<i128>>) -> i128 {
    let n = m.len();
    if n == 0 {
        return 1;
    }
    let mut sign = 1i128;
    let mut prev = 1i128;
    for k in 0..n {
        if m[k][k] == 0 {
            let mut sw = None;
            for i in k + 1..n {
                if m[i][k] != 0 {
                    sw = Some(i);
                    break;
                }
            }
            match sw {
                None => return 0,
                Some(i) => {
                    m.swap(k, i);
                    sign = -sign;
                }
            }
        }
        for i in k + 1..n {
            for j in k + 1..n {
                m[i][j] = (m[i][j] * m[k][k] - m[i][k] * m[k][j]) / prev;
            }
        }
        prev = m[k][k];
    }
    sign * m[n - 1][n - 1]
}

pub fn iorient(s: &[Vec<i64>]) -> i128 {
    let m: Vec<Vec<i128>> = s
        .iter()
        .map(|p| {
            let mut r: Vec<i128> = p.iter().map(|x| *x as i128).collect();
            r.push(1);
            r
        })
        .collect();
    idet(m)
}

pub fn iinsphere(s: &[Vec<i64>], q: &[i64]) -> i128 {
    let mut m: Vec<Vec<i128>> = Vec::new();
    for p in s.iter().map(|p| p.as_slice()).chain(std::iter::once(q)) {
        let mut r: Vec<i128> = p.iter().map(|x| *x as i128).collect();
        r.push(p.iter().map(|x| (*x as i128) * (*x as i128)).sum());
        r.push(1);
        m.push(r);
    }
    let o = iorient(s);
    idet(m).signum() * o.signum()
}

fn combos(n: usize, k: usize, f: &mut dyn FnMut(&[usize]) -> bool) -> bool {
    // returns false as soon as f returns false
    let mut idx: Vec<usize> = (0..k).collect();
    if k > n {
        return true;
    }
    loop {
        if !f(&idx) {
            return false;
        }
        let mut i = k;
        while i > 0 {
            i -= 1;
            if idx[i] != i + n - k {
                break;
            }
            if i == 0 {
                return true;
            }
        }
        if idx[i] == i + n - k {
            return true;
        }
        idx[i] += 1;
        for j in i + 1..k {
            idx[j] = idx[j - 1] + 1;
        }
    }
}

/// true when adding `p` to `pts` keeps general position (no D+1 on a hyperplane, no D+2 cospherical)
pub fn keeps_general_position(pts: &[Vec<i64>], p: &[i64], d: usize) -> bool {
    let n = pts.len();
    if pts.iter().any(|q| q.as_slice() == p) {
        return false;
    }
    // hyperplane test: every D-subset of pts together with p
    if n >= d {
        let ok = combos(n, d, &mut |idx| {
            let mut s: Vec<Vec<i64>> = idx.iter().map(|&i| pts[i].clone()).collect();
            s.push(p.to_vec());
            iorient(&s) != 0
        });
        if !ok {
            return false;
        }
    }
    if n >= d + 1 {
        let ok = combos(n, d + 1, &mut |idx| {
            let s: Vec<Vec<i64>> = idx.iter().map(|&i| pts[i].clone()).collect();
            if iorient(&s) == 0 {
                return false;
            }
            iinsphere(&s, p) != 0
        });
        if !ok {
            return false;
        }
    }
    true
}

pub fn general_position(rng: &mut Rng, d: usize, n: usize, r: i64) -> Vec<Vec<i64>> {
    let mut pts: Vec<Vec<i64>> = Vec::new();
    let mut tries = 0;
    while pts.len() < n && tries < 20000 {
        tries += 1;
        let p: Vec<i64> = (0..d).map(|_| rng.range(-r, r)).collect();
        if keeps_general_position(&pts, &p, d) {
            pts.push(p);
        }
    }
    pts
}

pub fn random_grid(rng: &mut Rng, d: usize, n: usize, r: i64) -> Vec<Vec<i64>> {
    let mut pts: Vec<Vec<i64>> = Vec::new();
    let mut tries = 0;
    while pts.len() < n && tries < 10000 {
        tries += 1;
        let p: Vec<i64> = (0..d).map(|_| rng.range(-r, r)).collect();
        if !pts.contains(&p) {
            pts.push(p);
        }
    }
    pts
}

/// all points of {0..k-1}^d
pub fn full_grid(d: usize, k: i64) -> Vec<Vec<i64>> {
    let mut pts = vec![vec![]];
    for _ in 0..d {
        let mut nx = Vec::new();
        for p in &pts {
            for x in 0..k {
                let mut q: Vec<i64> = p.clone();
                q.push(x);
                nx.push(q);
            }
        }
        pts = nx;
    }
    pts
}

/// cross-polytope ±r e_i (2d cospherical points) plus optionally the centre
pub fn cross_polytope(d: usize, r: i64, centre: bool) -> Vec<Vec<i64>> {
    let mut pts = Vec::new();
    for i in 0..d {
        for s in [-1, 1] {
            let mut p = vec![0; d];
            p[i] = s * r;
            pts.push(p);
        }
    }
    if centre {
        pts.push(vec![0; d]);
    }
    pts
}

/// integer points on the sphere |x|^2 = r2 (all of them, capped), d <= 5 small r2
pub fn sphere_points(d: usize, r2: i64, cap: usize, rng: &mut Rng) -> Vec<Vec<i64>> {
    let r = (r2 as f64).sqrt() as i64 + 1;
    let mut all = Vec::new();
    let mut p = vec![-r; d];
    'outer: loop {
        if p.iter().map(|x| x * x).sum::<i64>() == r2 {
            all.push(p.clone());
        }
        let mut i = 0;
        loop {
            if i == d {
                break 'outer;
            }
            p[i] += 1;
            if p[i] <= r {
                break;
            }
            p[i] = -r;
            i += 1;
        }
    }
    rng.shuffle(&mut all);
    all.truncate(cap);
    all
}

pub fn to_f(pts: &[Vec<i64>], scale: f64, shift: f64) -> Vec<Pt> {
    pts.iter()
        .map(|p| p.iter().map(|x| (*x as f64) * scale + shift).collect())
        .collect()
}

pub fn arr<const D: usize>(p: &[f64]) -> [f64; D] {
    let mut a = [0.0; D];
    a.copy_from_slice(&p[..D]);
    a
}

#[derive(Clone, Debug)]
pub struct PointSet {
    pub family: &'static str,
    pub pts: Vec<Pt>,
    /// true when the family guarantees exact general position
    pub gp: bool,
}

/// One structured point set for dimension `d` with about `n` points.
pub fn point_set(rng: &mut Rng, d: usize, n: usize) -> PointSet {
    let fam = rng.below(12);
    point_set_fam(rng, d, n, fam)
}

/// one chosen family (0-3 general, 4 dyadic general, 5.. degenerate families)
pub fn point_set_fam(rng: &mut Rng, d: usize, n: usize, fam: u64) -> PointSet {
    match fam {
        0 | 1 | 2 | 3 => {
            let r = [4, 8, 16, 50][rng.below(4) as usize];
            let pts = general_position(rng, d, n, r);
            PointSet {
                family: "general",
                pts: to_f(&pts, 1.0, 0.0),
                gp: true,
            }
        }
        4 => {
            // dyadic general position at a random power-of-two scale, shifted
            let pts = general_position(rng, d, n, 8);
            let sc = [0.5, 0.125, 1024.0, 9.5367431640625e-7][rng.below(4) as usize];
            PointSet {
                family: "general_dyadic",
                pts: to_f(&pts, sc, 0.0),
                gp: true,
            }
        }
        5 => {
            let k = if d <= 2 { 4 } else if d == 3 { 3 } else { 2 };
            let mut pts = full_grid(d, k);
            rng.shuffle(&mut pts);
            pts.truncate(n.max(d + 2));
            PointSet {
                family: "grid",
                pts: to_f(&pts, 1.0, 0.0),
                gp: false,
            }
        }
        6 => {
            let mut pts = cross_polytope(d, 2, rng.chance(1, 2));
            // a few extra random points
            for _ in 0..rng.below(3) {
                let p: Vec<i64> = (0..d).map(|_| rng.range(-3, 3)).collect();
                if !pts.contains(&p) {
                    pts.push(p);
                }
            }
            rng.shuffle(&mut pts);
            PointSet {
                family: "cospherical",
                pts: to_f(&pts, 1.0, 0.0),
                gp: false,
            }
        }
        7 => {
            let r2 = [25, 9, 50, 65][rng.below(4) as usize];
            let mut pts = sphere_points(d, r2, n, rng);
            if pts.len() < d + 2 {
                pts = cross_polytope(d, 3, true);
            }
            if rng.chance(1, 2) {
                pts.push(vec![0; d]);
            }
            PointSet {
                family: "sphere",
                pts: to_f(&pts, 1.0, 0.0),
                gp: false,
            }
        }
        8 => {
            // coplanar/collinear prefix followed by general points
            let mut pts: Vec<Vec<i64>> = Vec::new();
            let pre = (d + 1).min(n);
            for i in 0..pre as i64 {
                let mut p = vec![0; d];
                p[0] = i;
                if d > 1 && rng.chance(1, 2) {
                    p[1] = i;
                }
                if !pts.contains(&p) {
                    pts.push(p);
                }
            }
            let rest = random_grid(rng, d, n.saturating_sub(pts.len()), 6);
            for p in rest {
                if !pts.contains(&p) {
                    pts.push(p);
                }
            }
            PointSet {
                family: "degenerate_prefix",
                pts: to_f(&pts, 1.0, 0.0),
                gp: false,
            }
        }
        9 => {
            // random grid with many coincidences
            let pts = random_grid(rng, d, n, 3);
            PointSet {
                family: "small_grid",
                pts: to_f(&pts, 1.0, 0.0),
                gp: false,
            }
        }
        10 => {
            // wide scale
            let pts = general_position(rng, d, n, 8);
            PointSet {
                family: "wide",
                pts: to_f(&pts, 1_099_511_627_776.0, 0.0),
                gp: true,
            }
        }
        _ => {
            // general position around a dyadic offset (tests cancellation in absolute coords)
            let pts = general_position(rng, d, n, 8);
            PointSet {
                family: "offset",
                pts: to_f(&pts, 1.0, 1024.0),
                gp: true,
            }
        }
    }
}
