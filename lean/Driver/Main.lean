/-
Driver/Main.lean — reads cases on stdin, runs the executable model / exact oracles on each, and
prints one result line per case:
   R <id> ok|skip|DISAGREE|ORACLE <detail…>
followed by `S <counter> <n>` statistics lines.  Imports Model/ only (links as a lean_exe).
-/
import DelaunayModel.Model.Proto
import DelaunayModel.Model.Pred
import Driver.CxHandlers
import Driver.GeoHandlers
import Driver.OrdHandlers
import Driver.TorusHandlers
import Driver.MeasHandlers
import Driver.TxnHandlers
import Driver.BudHandlers
import Driver.SerdeHandlers
import Driver.FlipWalk
open DM

def optIntTok : Option Int → String
  | some i => toString i
  | none => "?"

/-- C12: predicate verdicts vs exact expectation -/
def runPred (c : Case) : Res :=
  let d := c.argNat "D"
  match (c.recsOf "p").mapM parsePt, (c.recsOf "q").head?.bind parsePt with
  | some s, some q =>
    let e := predExpect d s q
    let obI (n : String) : Option Int := (c.ob1 n).toInt?
    let obErr (n : String) : Bool := c.ob1 n == "err"
    Id.run do
      let mut bad : List String := []
      let mut stats : List String := [s!"pred.D{d}"]
      let mut decided := 0
      -- panics are never acceptable
      for (n, v) in c.obs do
        if (v.headD "").startsWith "panic" then bad := s!"{n}=panic" :: bad
      -- orientation, both kernels
      match e.orient with
      | some o =>
        decided := decided + 1
        stats := s!"pred.orient.decided.{o}" :: stats
        for n in ["orient_fast", "orient_robust"] do
          if obI n != some o then bad := s!"{n}={c.ob1 n} expected {o}" :: bad
      | none => stats := "pred.orient.undecided" :: stats
      -- in-sphere via the (D+2)-matrix formulation: `insphere`, FastKernel, RobustKernel
      match e.insphere with
      | some (some i) =>
        decided := decided + 1
        stats := s!"pred.insphere.decided.{i}" :: stats
        for n in ["insphere_fast", "insphere_std", "insphere_robust"] do
          if obI n != some i then bad := s!"{n}={c.ob1 n} expected {i}" :: bad
      | some none =>
        stats := "pred.insphere.degenerate" :: stats
        for n in ["insphere_fast", "insphere_std"] do
          if !obErr n then bad := s!"{n}={c.ob1 n} expected err (degenerate simplex)" :: bad
      | none =>
        -- exact zero whose MEASURED evaluation noise (the public determinant of the documented
        -- in-sphere matrix: its value is the rounding error itself when the exact determinant is 0)
        -- is at most 1/100 of the documented tolerance: "the rounding bound of the evaluation lies
        -- below the tolerance", so every formulation built on that matrix must answer BOUNDARY
        let iRowsQ : List (List Q) := (s ++ [q]).map (fun p => p.map Q.ofDy ++ [dySqNorm p, Q.ofInt 1])
        let iTol := adaptiveTol iRowsQ true
        let noise? := (parseF64 (c.ob1 "ins_noise")).bind F64.dy?
        match noise?, e.orient with
        | some nz, some o =>
          if e.exactIn == 0 && o != 0 && Q.le (Q.abs (Q.ofDy nz) * Q.ofInt 100) iTol then
            decided := decided + 1
            stats := "pred.insphere.zero_by_measured_noise" :: stats
            for n in ["insphere_fast", "insphere_std", "insphere_robust"] do
              if obI n != some 0 then bad := s!"{n}={c.ob1 n} expected 0 (exact determinant 0, measured rounding noise {qShow (Q.ofDy nz)} against a tolerance of {qShow iTol})" :: bad
          else stats := "pred.insphere.undecided" :: stats
        | _, _ => stats := "pred.insphere.undecided" :: stats
      match e.lifted with
      | some i =>
        stats := "pred.lifted.decided" :: stats
        if obI "insphere_lifted" != some i then
          bad := s!"insphere_lifted={c.ob1 "insphere_lifted"} expected {i}" :: bad
      | none => pure ()
      -- never opposite strict answers on well-conditioned input (any formulation, any kernel)
      match e.insphere with
      | some (some i) =>
        for n in ["insphere_lifted", "insphere_distance"] do
          match obI n with
          | some v => if v * i < 0 then bad := s!"{n}={v} opposite to exact {i}" :: bad
          | none => pure ()
      | _ => pure ()
      if bad.isEmpty then
        return { status := if decided == 0 then "skip" else "ok", stats := stats }
      else
        return { status := "ORACLE", detail := " ; ".intercalate bad.reverse ++
                  s!" [exact orient={e.exactOr} insphere={e.exactIn}]", stats := stats }
  | _, _ => { status := "skip", detail := "non-finite", stats := ["pred.nonfinite"] }

/-- C09: one duplicate probe judged by the exact linear-scan semantics of the model -/
def runDup (c : Case) : Res :=
  match (c.recsOf "lv").mapM parsePt, (c.recsOf "q").head?.bind parsePt with
  | some live, some q =>
    let outcome := c.ob1 "outcome"
    -- exact squared distances in rationals; tolerance 1e-10
    let tol2 : Q := ⟨1, 10 ^ 20⟩
    let d2 (p : DPt) : Q := (p.zip q).foldl (fun acc (a, b) => let d := Q.ofDy a - Q.ofDy b; acc + d * d) (Q.ofInt 0)
    let dists := live.map d2
    let within := dists.any (fun d => Q.lt d tol2)
    -- float evaluation of dist² near tol² is not second-guessed: skip a 1e-6 relative collar
    let lo : Q := ⟨999999, 1000000 * 10 ^ 20⟩
    let hi : Q := ⟨1000001, 1000000 * 10 ^ 20⟩
    let collar := dists.any (fun d => Q.lt lo d && Q.lt d hi)
    let reuse := c.arg "reuse_uuid" == "1"
    let stats := [s!"dup.after.{c.arg "after"}", s!"dup.former.{c.arg "former"}", s!"dup.delta.{c.arg "delta"}",
                  s!"dup.index.{c.arg "index"}", s!"dup.outcome.{outcome}"]
    if outcome.startsWith "panic" then { status := "ORACLE", detail := s!"insert panicked: {outcome}", stats := stats }
    else if collar then { status := "skip", stats := stats }
    else if reuse then
      if outcome == "DuplicateUuid" then { status := "ok", stats := stats }
      else { status := "ORACLE", detail := s!"a vertex reusing a live UUID was answered with {outcome} instead of DuplicateUuid", stats := stats }
    else if within then
      if outcome == "DuplicateCoordinates" then { status := "ok", stats := stats }
      else { status := "ORACLE", detail := s!"point within 1e-10 of a live vertex was answered with {outcome} instead of DuplicateCoordinates (after={c.arg "after"} index={c.arg "index"} delta={c.arg "delta"})", stats := stats }
    else
      if outcome == "DuplicateCoordinates" then
        { status := "ORACLE", detail := s!"point farther than 1e-10 from every live vertex was refused as DuplicateCoordinates (former={c.arg "former"} after={c.arg "after"} index={c.arg "index"})", stats := stats }
      else { status := "ok", stats := stats }
  | _, _ => { status := "skip", detail := "non-finite" }

def dispatch (c : Case) : Res :=
  match c.kind with
  | "pred" => runPred c
  | "cx" => runCx c
  | "dup" => runDup c
  | "note" => (match c.ob "panic" with
      | some m => { status := "ORACLE", detail := s!"panic while loading a corrupted document ({c.arg "corruption"}): {m}" }
      | none => { status := "ok", stats := [s!"note.rejected.{c.arg "corruption"}"] })
  -- harness-side comparison of two runs of the real code (no model involved): `fail` = they differ
  | "chk" => (match c.ob "fail" with
      | some m => { status := "ORACLE", detail := s!"{c.arg "what"}: {" ".intercalate m}", stats := [s!"chk.{c.arg "what"}"] }
      | none => { status := "ok", stats := [s!"chk.{c.arg "what"}"] })
  | "loc" => runLoc c
  | "hull" => runHull c
  | "qry" => runQry c
  | "hil" => runHil c
  | "bud" => runBud c
  | "adv" => runAdv c
  | "txn" => runTxn c
  | "meas" => runMeas c
  | "wrap" => runWrap c
  | "torus" => runTorus c
  | "ord" => runOrd c
  | "ded" => runDed c
  | "sdoc" => runSDoc c
  | "flipw" => runFlipW c
  | "tol" => runTol c
  | k => { status := "DISAGREE", detail := s!"unknown case kind {k}" }

partial def readAll (h : IO.FS.Stream) (acc : Array String) : IO (Array String) := do
  let line ← h.getLine
  if line.isEmpty then return acc else readAll h (acc.push line)

def bump (m : List (String × Nat)) (k : String) : List (String × Nat) :=
  match m with
  | [] => [(k, 1)]
  | (k', n) :: rest => if k' == k then (k', n + 1) :: rest else (k', n) :: bump rest k

def main : IO Unit := do
  let stdin ← IO.getStdin
  let lines ← readAll stdin #[]
  let cases := parseCases lines.toList
  let mut counters : List (String × Nat) := []
  for c in cases do
    let r := dispatch c
    IO.println s!"R {c.id} {r.status} {r.detail}"
    counters := bump counters s!"status.{r.status}"
    for s in r.stats do counters := bump counters s
  for (k, n) in counters do
    IO.println s!"S {k} {n}"
