use delaunay::core::delaunay_triangulation::{ConstructionOptions, DelaunayTriangulation, InsertionOrderStrategy};
use delaunay::core::triangulation::TopologyGuarantee;
use delaunay::core::vertex::Vertex;
use delaunay::geometry::kernel::FastKernel;
use delaunay::geometry::point::Point;
use delaunay::geometry::traits::coordinate::Coordinate;
fn main() {
    let pts: Vec<[f64; 4]> = vec![[0.,2.,0.,0.],[2.,0.,0.,0.],[0.,0.,0.,2.],[2.,1.,-1.,-3.],[-1.,-1.,1.,-1.],[0.,-2.,0.,0.],[-2.,0.,0.,0.],[0.,0.,0.,-2.],[0.,0.,2.,0.],[0.,0.,-2.,0.]];
    let vs: Vec<Vertex<f64, i32, 4>> = pts.iter().enumerate().map(|(i, p)| Vertex::new_with_uuid(Point::new(*p), uuid::Builder::from_random_bytes((1000u128 + i as u128).to_le_bytes()).into_uuid(), Some(i as i32))).collect();
    for g in [TopologyGuarantee::Pseudomanifold, TopologyGuarantee::PLManifold] {
        for order in [InsertionOrderStrategy::Hilbert, InsertionOrderStrategy::Input, InsertionOrderStrategy::Morton, InsertionOrderStrategy::Lexicographic] {
            let o = ConstructionOptions::default().with_insertion_order(order);
            let r = DelaunayTriangulation::<FastKernel<f64>, i32, i32, 4>::with_topology_guarantee_and_options(&FastKernel::new(), &vs, g, o);
            match r {
                Ok(dt) => println!("{g:?} {order:?}: Ok nv={} nc={} tri.is_valid={:?} dt.validate={:?}", dt.number_of_vertices(), dt.number_of_cells(), dt.as_triangulation().is_valid().map_err(|e| format!("{e}").chars().take(400).collect::<String>()), dt.validate().map_err(|e| format!("{e}").chars().take(160).collect::<String>())),
                Err(e) => println!("{g:?} {order:?}: Err {}", format!("{e}").chars().take(100).collect::<String>()),
            }
        }
    }
}
