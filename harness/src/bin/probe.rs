use delaunay::core::delaunay_triangulation::{ConstructionOptions, DedupPolicy, DelaunayTriangulation};
use delaunay::core::triangulation::TopologyGuarantee;
use delaunay::core::vertex::Vertex;
use delaunay::geometry::kernel::FastKernel;
use delaunay::geometry::point::Point;
use delaunay::geometry::traits::coordinate::Coordinate;
fn main() {
    let pts: Vec<[f64; 2]> = vec![[0.,0.],[4.,0.],[0.,4.],[3.,3.],[1.,2.]];
    let vs: Vec<Vertex<f64, i32, 2>> = pts.iter().enumerate().map(|(i, p)| Vertex::new_with_uuid(Point::new(*p), uuid::Builder::from_random_bytes((1000u128 + i as u128).to_le_bytes()).into_uuid(), Some(i as i32))).collect();
    for tol in [1e-12, 1e-9, 1e-6] {
        let o = ConstructionOptions::default().with_dedup_policy(DedupPolicy::Epsilon { tolerance: tol });
        let mut dt = DelaunayTriangulation::<FastKernel<f64>, i32, i32, 2>::with_topology_guarantee_and_options(&FastKernel::new(), &vs, TopologyGuarantee::PLManifold, o).unwrap();
        for dx in [0.0, 5e-11, 2e-10] {
            let mut d2 = dt.clone();
            let v = Vertex::new_with_uuid(Point::new([1.0 + dx, 2.0]), uuid::Builder::from_random_bytes((2000u128).to_le_bytes()).into_uuid(), Some(99));
            println!("tol={tol:e} dx={dx:e}: {:?}", d2.insert(v).map(|_| "Inserted").map_err(|e| format!("{e}").chars().take(50).collect::<String>()));
        }
        let _ = &mut dt;
    }
}
