/-
Props/C12.lean — property theorems for C12 (predicates return the exact sign on well-conditioned
input).  Property theorems only; helper lemmas live in Lemmas/.

Shape: the Rust predicates compute a floating determinant d̃ and classify it with a dead band τ
(`classify`).  The model knows the exact determinant d.  Under the (assumed, see DESIGN §6)
rounding bound |d̃ − d| ≤ ε:
  * if |d| > τ + ε the classifier returns sign d                       (`classify_separated`)
  * if d = 0 and ε ≤ τ the classifier returns 0                         (`classify_zero`)
so `expected τ ε d = some s → classify τ d̃ = s` (`expected_sound`): whenever the driver makes a
claim about a case, every evaluation that respects the bound must give that verdict.
Permutation behaviour of the exact signs is in `Lemmas/DetBridge` and re-exported below.
-/
import DelaunayModel.Model.Pred
import DelaunayModel.Lemmas.DetBridge
import DelaunayModel.Lemmas.LiftedAux
namespace DM.C12

open DM

theorem classify_separated (tol eps d dt : Int) (htol : 0 ≤ tol) (heps : 0 ≤ eps)
    (herr : iabs (dt - d) ≤ eps) (hsep : iabs d > tol + eps) :
    classify tol dt = sgn d := by
  unfold classify sgn iabs at *
  split at herr <;> split at hsep <;> (repeat' split) <;> omega

theorem classify_zero (tol eps dt : Int) (herr : iabs (dt - 0) ≤ eps) (hle : eps ≤ tol) :
    classify tol dt = 0 := by
  unfold classify iabs at *
  split at herr <;> (repeat' split) <;> omega

/-- whenever the oracle commits to a verdict, any evaluation within the error bound returns it -/
theorem expected_sound (tol eps d dt s : Int) (htol : 0 ≤ tol) (heps : 0 ≤ eps)
    (herr : iabs (dt - d) ≤ eps) (h : expected tol eps d = some s) :
    classify tol dt = s := by
  unfold expected at h
  split at h
  · rename_i hsep
    have := classify_separated tol eps d dt htol heps herr hsep
    simp_all
  · split at h
    · rename_i hz
      simp only [Bool.and_eq_true, beq_iff_eq, decide_eq_true_eq] at hz
      obtain ⟨hd, hle⟩ := hz
      subst hd
      have := classify_zero tol eps dt herr hle
      simp_all
    · simp at h

/-- two evaluations of the same configuration (two kernels, two formulations with the same exact
determinant) never give opposite strict answers when the oracle commits -/
theorem no_opposite (tol eps d dt₁ dt₂ s : Int) (htol : 0 ≤ tol) (heps : 0 ≤ eps)
    (h₁ : iabs (dt₁ - d) ≤ eps) (h₂ : iabs (dt₂ - d) ≤ eps) (h : expected tol eps d = some s) :
    classify tol dt₁ = classify tol dt₂ := by
  rw [expected_sound tol eps d dt₁ s htol heps h₁ h, expected_sound tol eps d dt₂ s htol heps h₂ h]

/-- the oracle never commits to a wrong sign: a committed verdict is the exact sign -/
theorem expected_is_sign (tol eps d s : Int) (h : expected tol eps d = some s) : s = sgn d := by
  unfold expected at h
  split at h
  · simp_all
  · split at h
    · rename_i hz
      simp only [Bool.and_eq_true, beq_iff_eq, decide_eq_true_eq] at hz
      obtain ⟨hd, _⟩ := hz
      subst hd
      simp [sgn] at *
      omega
    · simp at h

/-- exact orientation flips sign under a transposition of two simplex vertices -/
theorem orient_transposition {D : Nat} {s : List IPt} (hl : s.length = D + 1)
    (hs : ∀ p ∈ s, p.length = D) {i j : Nat} (hi : i < D + 1) (hj : j < D + 1) (hij : i ≠ j) :
    orientSign (swapAt s i j) = - orientSign s :=
  orientSign_swap hl hs hi hj hij

/-- exact orientation changes at most by sign under any reordering of the simplex vertices -/
theorem orient_perm {D : Nat} {s s' : List IPt} (hl : s.length = D + 1)
    (hs : ∀ p ∈ s, p.length = D) (hp : s.Perm s') :
    orientSign s' = orientSign s ∨ orientSign s' = - orientSign s :=
  orientSign_perm hl hs hp

/-- the exact in-sphere sign is invariant under every reordering of the simplex vertices -/
theorem insphere_perm_invariant {D : Nat} {s s' : List IPt} {q : IPt} (hl : s.length = D + 1)
    (hs : ∀ p ∈ s, p.length = D) (hq : q.length = D) (hp : s.Perm s') :
    insphereSign s' q = insphereSign s q :=
  insphereSign_perm hl hs hq hp

/-- non-vacuity: a concrete well-separated configuration (2-D, unit right triangle, query (1,1)
scaled by 4: exact in-sphere determinant ≠ 0) on which the oracle commits -/
example : expected 1 1 (insphereDet [[0,0],[4,0],[0,4]] [1,1]) = some 1 := by decide
example : expected 1 1 (insphereDet [[0,0],[4,0],[0,4]] [4,4]) = some 0 := by decide

/-! ### the lifted formulation (`insphere_lifted`) against the standard in-sphere determinant

`liftedRows s q` (Model/Det.lean, used by `predExpect`) is the `(D+1) × (D+1)` matrix of
coordinates relative to the first vertex with the squared norm of the relative vector last;
`insphereRows s q` is the `(D+2) × (D+2)` matrix `[p | ‖p‖² | 1]`.  In every dimension `D` their
exact determinants agree up to the sign `liftedParity D = (−1)^(D+1)` (`-1` for even `D`, `+1` for
odd `D`) — exactly the `parity` factor `predExpect` applies. -/

/-- **lifted = ± standard**, every dimension `D`: `liftedParity D = if D % 2 == 0 then -1 else 1` -/
theorem lifted_eq_insphere {D : Nat} {s : List IPt} {q : IPt} (hl : s.length = D + 1)
    (hs : ∀ p ∈ s, p.length = D) (hq : q.length = D) :
    liftedDet s q = liftedParity D * insphereDet s q :=
  liftedDet_eq hl hs hq

/-- the sign `c(D)` spelled out -/
theorem liftedParity_def (D : Nat) : liftedParity D = if D % 2 == 0 then -1 else 1 := rfl

theorem liftedParity_eq_pow (D : Nat) : liftedParity D = (-1) ^ (D + 1) := liftedParity_eq D

/-- sign form: the exact signs of the two formulations differ by `liftedParity D` -/
theorem lifted_sign_eq {D : Nat} {s : List IPt} {q : IPt} (hl : s.length = D + 1)
    (hs : ∀ p ∈ s, p.length = D) (hq : q.length = D) :
    sgn (liftedDet s q) = liftedParity D * sgn (insphereDet s q) := by
  rw [lifted_eq_insphere hl hs hq]
  unfold liftedParity
  split
  · rw [neg_one_mul, neg_one_mul, sgn_neg]
  · rw [one_mul, one_mul]

/-- consequently the orientation-normalised lifted sign, as `predExpect` forms it
(`i * parity * o`), is the exact in-sphere sign -/
theorem lifted_sign_normalised {D : Nat} {s : List IPt} {q : IPt} (hl : s.length = D + 1)
    (hs : ∀ p ∈ s, p.length = D) (hq : q.length = D) :
    sgn (liftedDet s q) * liftedParity D * orientSign s = insphereSign s q := by
  rw [lifted_sign_eq hl hs hq, mul_comm (liftedParity D) (sgn _), mul_assoc (sgn _),
    liftedParity_mul_self, mul_one]
  rfl

/-- the exact in-sphere determinant is invariant under translating all points by `t`
(`vadd p t = List.zipWith (· + ·) p t`) -/
theorem insphereDet_translate {D : Nat} {s : List IPt} {q t : IPt} (hl : s.length = D + 1)
    (hs : ∀ p ∈ s, p.length = D) (hq : q.length = D) (ht : t.length = D) :
    insphereDet (s.map (vadd · t)) (vadd q t) = insphereDet s q :=
  insphereDet_translate' hl hs hq ht

/-- non-vacuity: concrete instances in D = 1, 2, 3 with both sides equal and non-zero -/
example : liftedDet [[1,2],[5,1],[2,7]] [3,3] = -204 ∧
    liftedParity 2 * insphereDet [[1,2],[5,1],[2,7]] [3,3] = -204 := by decide
example : liftedDet [[3],[7]] [5] = -16 ∧ liftedParity 1 * insphereDet [[3],[7]] [5] = -16 := by
  decide
example : liftedDet [[1,2,3],[5,1,0],[2,7,1],[0,1,8]] [3,3,3] = -2746 ∧
    liftedParity 3 * insphereDet [[1,2,3],[5,1,0],[2,7,1],[0,1,8]] [3,3,3] = -2746 := by decide
example : insphereDet ([[1,2],[5,1],[2,7]].map (vadd · [10,-4])) (vadd [3,3] [10,-4]) = 204 ∧
    insphereDet [[1,2],[5,1],[2,7]] [3,3] = 204 := by decide

end DM.C12
