/-
Driver/TxnHandlers.lean — K2 handler for C03: one armed (or natural) run of a public mutator.
 * property: outcome Err / Skipped / panic-free ⇒ the full fingerprint is unchanged and the
   duplicate cache still refuses existing positions;
 * refinement: every failpoint the real run reached must be a failpoint of the model program of
   that operation (otherwise the hand-written program no longer mirrors the code: DISAGREE);
   and where the model program is `clean` the model predicts "unchanged" for every schedule.
-/
import DelaunayModel.Model.Proto
import DelaunayModel.Model.Txn
import Driver.CxHandlers
open DM DM.Txn

def progOf (op : String) : Option Prog :=
  match op with
  | "insert" | "insert_stats" | "insert_checked" => some dtInsertGuarded
  -- repair Never + check EveryN(n): guarded when the check is due, bare otherwise; the guarded
  -- program contains every failpoint of both
  | "insert_chk2_p0" | "insert_chk2_p1" | "insert_chk3_p0" | "insert_chk3_p1" | "insert_chk3_p2" => some dtInsertGuarded
  -- repair EveryN(2) at both phases of the counter: guarded when the repair is due
  | "insert_rep2_p0" | "insert_rep2_p1" | "insert_rep2s_p0" | "insert_rep2s_p1" => some dtInsertGuarded
  | "insert_bare" => some dtInsertBare
  | "remove" | "remove_bare" => some dtRemoveGuarded
  | "flip_k2" | "flip_k3" | "flip_k2inv" | "flip_k1_insert" | "flip_k1_remove" => some editFlip
  -- stale-handle flips are preceded by a preparatory insertion in the harness: union of both programs
  | "flip_k1_insert_stale" | "flip_k2_stale" => some (dtInsertGuarded ;; editFlip)
  | "insert_duplicate" => some dtInsertGuarded
  | "remove_unknown" => some dtRemoveGuarded
  | "repair" => some repairPublic
  | "repair_adv" => some repairAdvanced
  | _ => none

def failpointsOf : Prog → List String
  | .skip => []
  | .mutate _ => []
  | .failpoint n => [n]
  | .seq p q => failpointsOf p ++ failpointsOf q
  | .scope b => failpointsOf b
  | .attempt b => failpointsOf b
  | .orElse p q => failpointsOf p ++ failpointsOf q

def runTxn (c : Case) : Res :=
  let op := c.arg "op"
  let fp := c.arg "fp"
  let outcome := c.ob1 "outcome"
  let unchanged := c.ob1 "unchanged" == "1"
  let failed := outcome.startsWith "err" || outcome.startsWith "skipped"
  let stats := [s!"txn.op.{op}", s!"txn.fp.{fp}", s!"txn.fired{c.arg "fired"}", s!"txn.outcome.{(outcome.splitOn ":").headD ""}"]
  match progOf op with
  | none => { status := "DISAGREE", detail := s!"no model program for operation {op}" }
  | some prog =>
    Id.run do
      let mut bad : List String := []
      let mut dis : List String := []
      if outcome.startsWith "panic" then bad := s!"{op} panicked (failpoint {fp}): {outcome}" :: bad
      -- stale-handle ops: the harness compares around the flip only and marks a change explicitly
      if outcome.endsWith ":CHANGED" then
        bad := s!"op={op}: a flip on a stale cell key returned {outcome} but changed the triangulation" :: bad
      let stalePrep := op == "flip_k1_insert_stale" || op == "flip_k2_stale"
      if failed && !unchanged && !stalePrep then
        let predicted := if clean prog then "model program is clean: unchanged predicted" else
          (if (dirtyAt prog false).contains fp then "model predicts a dirty failure here" else "model program not clean")
        bad := s!"op={op} failpoint={fp} ord={c.arg "ord"}: returned {outcome} but the triangulation changed ({predicted})" :: bad
      -- theorem later_ops_same, observed: the same follow-up insertions on this triangulation and
      -- on a clone taken before the failed call must give the same outcomes and the same state
      if failed && unchanged && (c.ob "followup_same").isSome && c.ob1 "followup_same" != "1" then
        bad := s!"op={op} failpoint={fp}: returned {outcome} with an unchanged fingerprint, but three later insertions (repair/check EveryN(2)) behave differently than on a clone taken before the call: the failed call left a trace (scheduling counter, hint or cache)" :: bad
      if c.ob1 "dup_probe" != "1" then
        bad := s!"op={op} failpoint={fp}: after the call an insert at an existing vertex position is no longer refused as a duplicate" :: bad
      -- refinement: reached failpoints must belong to the model program
      let known := failpointsOf prog
      let trace := (c.ob "trace").getD []
      for t in trace do
        if !known.contains t then
          if dis.length < 3 then dis := s!"operation {op} reached failpoint {t}, which the model program of {op} does not contain" :: dis
      -- an armed failpoint that fired inside a clean program must make the call fail or be absorbed;
      -- if the model says the op fails (failpoint outside any `attempt`) but the real call returned ok
      -- while the state changed, that is fine (success); nothing more to check.
      if !bad.isEmpty then return { status := "ORACLE", detail := " ; ".intercalate bad.reverse, stats := stats }
      if !dis.isEmpty then return { status := "DISAGREE", detail := " ; ".intercalate dis.reverse, stats := stats }
      return { status := if failed || c.arg "fired" == "1" then "ok" else "skip", stats := stats }
