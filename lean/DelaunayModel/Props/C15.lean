/-
Props/C15.lean — property theorems for C15: every topology / adjacency query equals the direct
enumeration of the faces of the stored cells, and the indexed and the direct variants agree.

 * §1  `subsetsK` = sublists of a given length (sorted when the cell key is sorted)
 * §2  de-duplication keeps membership and is duplicate-free
 * §3  `facesK K k` = the distinct sorted `k`-subsets of the stored cells
 * §4  edges: `cellEdges`, `allEdges`, `incidentEdges`; `number_of_edges` = `#facesK K 2`
 * §5  adjacency index = direct queries (`vertexToCells`, `cellToNeighbors`)
 * §6  f-vector entries and the alternating sum `eulerChi`
 * §7  the Euler-characteristic classification table
 * §8  non-vacuity on the two-triangle complex of Props/C05

Helper lemmas live in Lemmas/QueryAux.lean.  Everything here is core-only.
-/
import DelaunayModel.Lemmas.QueryAux
import DelaunayModel.Props.C05
namespace DM.C15

open DM

/-! ## §1 `subsetsK` -/

theorem subsetsK_mem (k : Nat) (l s : List Nat) :
    s ∈ subsetsK k l ↔ s.Sublist l ∧ s.length = k := DM.subsetsK_mem

theorem subsetsK_length (k : Nat) (l s : List Nat) (h : s ∈ subsetsK k l) : s.length = k :=
  DM.subsetsK_length h

theorem subsetsK_sorted (k : Nat) (l s : List Nat) (hl : l.Pairwise (· ≤ ·))
    (h : s ∈ subsetsK k l) : s.Pairwise (· ≤ ·) := DM.subsetsK_sorted hl h

/-- in particular the faces of a cell are sorted -/
theorem subsetsK_cellKey_sorted (k : Nat) (c : Cell) (s : List Nat)
    (h : s ∈ subsetsK k (cellKey c)) : s.Pairwise (· ≤ ·) :=
  DM.subsetsK_sorted (sortNat_sorted c.vs) h

/-! ## §2 de-duplication -/

theorem dedup_mem (l : List (List Nat)) (x : List Nat) : x ∈ dedup l ↔ x ∈ l := dedupBy_mem

theorem dedup_nodup (l : List (List Nat)) : (dedup l).Nodup := dedupBy_nodup l

/-- generic version (any type with a lawful `BEq`): the `foldr … contains …` pattern used by
`dedup`, `allEdges`, `graphVerts`, `dedupEdges` -/
theorem dedupGen_mem {α : Type} [BEq α] [LawfulBEq α] (l : List α) (x : α) :
    x ∈ l.foldr (fun x acc => if acc.contains x then acc else x :: acc) [] ↔ x ∈ l := dedupBy_mem

theorem dedupGen_nodup {α : Type} [BEq α] [LawfulBEq α] (l : List α) :
    (l.foldr (fun x acc => if acc.contains x then acc else x :: acc) []).Nodup := dedupBy_nodup l

/-! ## §3 faces -/

theorem facesK_mem (K : Cx) (k : Nat) (f : List Nat) :
    f ∈ facesK K k ↔ ∃ c ∈ K.cells, f.Sublist (cellKey c) ∧ f.length = k := by
  unfold facesK
  rw [dedup_mem, List.mem_flatMap]
  simp only [DM.subsetsK_mem]

theorem facesK_nodup (K : Cx) (k : Nat) : (facesK K k).Nodup := dedup_nodup _

theorem facesK_sorted (K : Cx) (k : Nat) (f : List Nat) (h : f ∈ facesK K k) :
    f.Pairwise (· ≤ ·) := by
  obtain ⟨c, _, hs, _⟩ := (facesK_mem K k f).1 h
  exact (sortNat_sorted c.vs).sublist hs

/-- `f_{D-1}`: when every cell has `D + 1` vertices, the `D`-vertex faces are exactly the facet keys
(`facesK K D` enumerates each distinct facet key once) -/
theorem facesK_D_mem_iff_facetKey (K : Cx) (hlen : ∀ c ∈ K.cells, c.vs.length = K.D + 1)
    (f : List Nat) : f ∈ facesK K K.D ↔ ∃ t ∈ allFacets K, t.1 = f := by
  rw [facesK_mem]
  constructor
  · rintro ⟨c, hc, hs, hl⟩
    obtain ⟨i, hi, rfl⟩ := sublist_sortNat_eq_eraseIdx (l := c.vs) hs (by rw [hlen c hc, hl])
    exact ⟨_, mem_allFacets_of hc hi, rfl⟩
  · rintro ⟨t, ht, rfl⟩
    obtain ⟨c, hc, i, hi, rfl⟩ := mem_allFacets.1 ht
    refine ⟨c, hc, sortNat_eraseIdx_sublist c.vs i, ?_⟩
    show (facetKey c i).length = K.D
    unfold facetKey
    rw [sortNat_length, List.length_eraseIdx_of_lt hi, hlen c hc]
    rfl

/-- so every boundary facet is one of the enumerated `D`-vertex faces -/
theorem boundaryFacets_subset_faces (K : Cx) (hlen : ∀ c ∈ K.cells, c.vs.length = K.D + 1)
    (k : List Nat) (hk : k ∈ boundaryFacets K) : k ∈ facesK K K.D :=
  (facesK_D_mem_iff_facetKey K hlen k).2 (mem_boundaryFacets.1 hk).1

/-! ## §4 edges -/

theorem cellEdges_mem (c : Cell) (a b : Nat) :
    (a, b) ∈ cellEdges c ↔ [a, b].Sublist (cellKey c) := by
  rw [cellEdges_eq_filterMap, List.mem_filterMap]
  constructor
  · rintro ⟨e, he, hab⟩
    rw [edgeOfList_eq_some] at hab
    subst hab
    exact subsetsK_sublist he
  · intro h
    exact ⟨[a, b], DM.subsetsK_mem.2 ⟨h, rfl⟩, edgeOfList_eq_some.2 rfl⟩

/-- edges are stored smaller endpoint first -/
theorem cellEdges_le (c : Cell) (a b : Nat) (h : (a, b) ∈ cellEdges c) : a ≤ b := by
  have hs := (sortNat_sorted c.vs).sublist ((cellEdges_mem c a b).1 h)
  simpa using hs

theorem allEdges_mem (K : Cx) (e : Nat × Nat) :
    e ∈ allEdges K ↔ ∃ c ∈ K.cells, e ∈ cellEdges c := by
  unfold allEdges
  rw [dedupGen_mem, List.mem_flatMap]

theorem allEdges_nodup (K : Cx) : (allEdges K).Nodup := dedupGen_nodup _

theorem incidentEdges_mem (K : Cx) (v : Nat) (e : Nat × Nat) :
    e ∈ incidentEdges K v ↔ e ∈ allEdges K ∧ (e.1 = v ∨ e.2 = v) := by
  unfold incidentEdges
  simp only [List.mem_filter, Bool.or_eq_true, beq_iff_eq]

theorem incidentEdges_nodup (K : Cx) (v : Nat) : (incidentEdges K v).Nodup :=
  (allEdges_nodup K).sublist List.filter_sublist

/-- the edge list is the list of 2-vertex faces, written as pairs (same order) -/
theorem allEdges_eq_facesK2 (K : Cx) : allEdges K = (facesK K 2).map toPair := by
  unfold allEdges facesK
  have h1 : K.cells.flatMap cellEdges =
      (K.cells.flatMap (fun c => subsetsK 2 (cellKey c))).map toPair := by
    rw [List.map_flatMap]
    congr 1
    funext c
    exact cellEdges_eq_map c
  rw [h1, dedup_eq_dedupBy]
  refine dedupBy_map toPair _ ?_
  intro x hx y hy hxy
  obtain ⟨_, _, hx'⟩ := List.mem_flatMap.1 hx
  obtain ⟨_, _, hy'⟩ := List.mem_flatMap.1 hy
  exact toPair_inj (DM.subsetsK_length hx') (DM.subsetsK_length hy') hxy

/-- `number_of_edges` (the length of the de-duplicated edge list) = number of 2-vertex faces -/
theorem allEdges_length_eq_facesK2 (K : Cx) : (allEdges K).length = (facesK K 2).length := by
  rw [allEdges_eq_facesK2, List.length_map]

theorem allEdges_mem_iff_facesK2 (K : Cx) (a b : Nat) :
    (a, b) ∈ allEdges K ↔ [a, b] ∈ facesK K 2 := by
  rw [allEdges_mem, facesK_mem]
  constructor
  · rintro ⟨c, hc, h⟩
    exact ⟨c, hc, (cellEdges_mem c a b).1 h, rfl⟩
  · rintro ⟨c, hc, h, _⟩
    exact ⟨c, hc, (cellEdges_mem c a b).2 h⟩

/-! ## §5 index = direct -/

theorem bucketGet_bucketPush_same {α : Type} (m : List (Nat × List α)) (k : Nat) (x : α) :
    bucketGet (bucketPush m k x) k = bucketGet m k ++ [x] := DM.bucketGet_bucketPush_same m k x

theorem bucketGet_bucketPush_other {α : Type} (m : List (Nat × List α)) (k k' : Nat) (x : α)
    (hne : k' ≠ k) : bucketGet (bucketPush m k x) k' = bucketGet m k' :=
  DM.bucketGet_bucketPush_other m k k' x hne

/-- the fold that builds the vertex → cells index, from any starting map, with NO assumption on the
cells: bucket `v` receives each cell id once per occurrence of `v` among the cell's slots -/
theorem vertexToCells_fold (cells : List Cell) (m : List (Nat × List Nat)) (v : Nat) :
    bucketGet (cells.foldl (fun m c => c.vs.foldl (fun m u => bucketPush m u c.id) m) m) v =
      bucketGet m v ++ cells.flatMap (fun c => List.replicate (c.vs.count v) c.id) := by
  induction cells generalizing m with
  | nil => simp
  | cons c cs ih =>
    rw [List.foldl_cons, ih, bucketGet_foldl_push, List.flatMap_cons, List.append_assoc]

theorem vertexToCells_get (K : Cx) (v : Nat) :
    bucketGet (vertexToCells K) v =
      K.cells.flatMap (fun c => List.replicate (c.vs.count v) c.id) := by
  unfold vertexToCells
  rw [vertexToCells_fold, bucketGet_nil, List.nil_append]

/-- index = direct query for cells without repeated vertices -/
theorem vertexToCells_eq_direct (K : Cx) (hnd : ∀ c ∈ K.cells, c.vs.Nodup) (v : Nat) :
    bucketGet (vertexToCells K) v = adjacentCells K v := by
  rw [vertexToCells_get]
  unfold adjacentCells
  generalize K.cells = cells at hnd
  induction cells with
  | nil => rfl
  | cons c cs ih =>
    have ih' := ih (fun d hd => hnd d (List.mem_cons_of_mem _ hd))
    rw [List.flatMap_cons, ih', count_of_nodup (hnd c List.mem_cons_self), List.filter_cons]
    split <;> simp

/-- index = direct query for cell → neighbours, with unique cell ids -/
theorem cellToNeighbors_eq_direct (K : Cx) (hnd : (K.cells.map (·.id)).Nodup) (c : Cell)
    (hc : c ∈ K.cells) : bucketGet (cellToNeighbors K) c.id = cellNeighbors c := by
  unfold cellToNeighbors
  generalize K.cells = cells at hnd hc
  induction cells with
  | nil => cases hc
  | cons d ds ih =>
    rw [List.map_cons, bucketGet_cons]
    rw [List.map_cons, List.nodup_cons] at hnd
    rcases List.mem_cons.1 hc with rfl | hc'
    · simp
    · have hne : c.id ≠ d.id := by
        intro e
        exact hnd.1 (e ▸ List.mem_map.2 ⟨c, hc', rfl⟩)
      rw [if_neg hne]
      exact ih hnd.2 hc'

/-! ## §6 f-vector and Euler characteristic -/

theorem fVector_length (K : Cx) : (fVector K).length = K.D + 1 := by
  unfold fVector
  split <;> simp

/-- the entries of the f-vector of a non-empty complex.  (For `K.D = 0` the entry at index
`0 = K.D` is the number of stored vertices — the `k == 0` branch comes first — hence `0 < K.D`
in the second part.) -/
theorem fVector_get (K : Cx) (hne : K.cells ≠ []) :
    (fVector K).getD 0 0 = K.verts.length ∧
    (0 < K.D → (fVector K).getD K.D 0 = K.cells.length) ∧
    (∀ k, 0 < k → k < K.D → (fVector K).getD k 0 = (facesK K (k + 1)).length) := by
  have he : K.cells.isEmpty = false := by
    cases h : K.cells with
    | nil => exact absurd h hne
    | cons _ _ => rfl
  have key : ∀ k, k ≤ K.D → (fVector K).getD k 0 =
      (if k == 0 then K.verts.length else if k == K.D then K.cells.length
       else (facesK K (k + 1)).length) := by
    intro k hk
    unfold fVector
    rw [he]
    simp only [Bool.false_eq_true, ↓reduceIte]
    rw [List.getD_eq_getElem?_getD, List.getElem?_map,
      List.getElem?_range (by omega)]
    rfl
  refine ⟨?_, ?_, ?_⟩
  · rw [key 0 (Nat.zero_le _)]; rfl
  · intro hD
    rw [key K.D (Nat.le_refl _)]
    have : (K.D == 0) = false := by simpa using Nat.ne_of_gt hD
    simp [this]
  · intro k hk hkD
    rw [key k (Nat.le_of_lt hkD)]
    have h0 : (k == 0) = false := by simpa using Nat.ne_of_gt hk
    have h1 : (k == K.D) = false := by simpa using Nat.ne_of_lt hkD
    simp [h0, h1]

/-- the f-vector of a complex without cells: only the vertex count (and nothing at index `D`) -/
theorem fVector_empty (K : Cx) (he : K.cells = []) :
    fVector K = ((K.verts.length :: List.replicate K.D 0).take (K.D + 1)).set K.D 0 := by
  unfold fVector
  simp [he]

/-- intermediate entries count distinct faces, spelled out -/
theorem fVector_get_faces (K : Cx) (hne : K.cells ≠ []) (k : Nat) (hk : 0 < k) (hkD : k < K.D) :
    (fVector K).getD k 0 = (facesK K (k + 1)).length ∧ (facesK K (k + 1)).Nodup ∧
    ∀ f, f ∈ facesK K (k + 1) ↔ ∃ c ∈ K.cells, f.Sublist (cellKey c) ∧ f.length = k + 1 :=
  ⟨(fVector_get K hne).2.2 k hk hkD, facesK_nodup K _, facesK_mem K _⟩

/-- f₁ = `number_of_edges` when `2 ≤ D` -/
theorem fVector_one_eq_edges (K : Cx) (hne : K.cells ≠ []) (hD : 1 < K.D) :
    (fVector K).getD 1 0 = (allEdges K).length := by
  rw [allEdges_length_eq_facesK2]
  exact (fVector_get K hne).2.2 1 (Nat.lt_succ_self 0) hD

/-- the general recursive law of the alternating sum -/
theorem eulerChi_cons (a : Nat) (rest : List Nat) :
    eulerChi (a :: rest) = (a : Int) - eulerChi rest := by
  rw [eulerChi_eq_altSum, eulerChi_eq_altSum, altSum_cons, altSum_succ]
  have h0 : altTerm (a, 0) = (a : Int) := rfl
  rw [h0]
  omega

theorem eulerChi_nil : eulerChi [] = 0 := rfl

theorem eulerChi_def :
    (∀ a : Nat, eulerChi [a] = a) ∧
    (∀ a b : Nat, eulerChi [a, b] = (a : Int) - b) ∧
    (∀ a b c : Nat, eulerChi [a, b, c] = (a : Int) - b + c) ∧
    (∀ a b c d : Nat, eulerChi [a, b, c, d] = (a : Int) - b + c - d) := by
  refine ⟨?_, ?_, ?_, ?_⟩ <;> intros <;> simp only [eulerChi_cons, eulerChi_nil] <;> omega

/-! ## §7 classification table -/

inductive Class
  | empty
  | singleSimplex
  | ball
  | closedSphere
  deriving DecidableEq, Repr

def classify (K : Cx) : Class :=
  if K.cells.isEmpty then .empty
  else if K.cells.length == 1 then .singleSimplex
  else if !(boundaryFacets K).isEmpty then .ball
  else .closedSphere

theorem classification_table (K : Cx) :
    expectedChi K =
      match classify K with
      | .empty => 0
      | .singleSimplex => 1
      | .ball => 1
      | .closedSphere => 1 + (if K.D % 2 == 0 then 1 else -1) := by
  unfold expectedChi classify
  split
  · rfl
  · split
    · rfl
    · split <;> rfl

/-- the classes in words: `ball` iff at least two cells and some facet lies in exactly one cell -/
theorem classify_ball_iff (K : Cx) :
    classify K = .ball ↔ 2 ≤ K.cells.length ∧ ∃ k, k ∈ boundaryFacets K := by
  unfold classify
  cases hc : K.cells with
  | nil => simp
  | cons c cs =>
    cases cs with
    | nil => simp
    | cons d ds =>
      cases hb : boundaryFacets K with
      | nil => simp
      | cons f fs => simp

/-! ## §8 non-vacuity -/

open DM.C05 in
theorem twoTri_allEdges : allEdges twoTri = [(0, 1), (0, 2), (1, 2), (1, 3), (2, 3)] := by decide

open DM.C05 in
theorem twoTri_allEdges_length : (allEdges twoTri).length = 5 := by decide

open DM.C05 in
theorem twoTri_fVector : fVector twoTri = [4, 5, 2] := by decide

open DM.C05 in
theorem twoTri_eulerChi : eulerChi (fVector twoTri) = 1 := by decide

open DM.C05 in
theorem twoTri_boundary_length : (boundaryFacets twoTri).length = 4 := by decide

open DM.C05 in
theorem twoTri_vertexToCells_1 : bucketGet (vertexToCells twoTri) 1 = [0, 1] := by decide

open DM.C05 in
theorem twoTri_adjacentCells_1 : adjacentCells twoTri 1 = [0, 1] := by decide

open DM.C05 in
theorem twoTri_cellToNeighbors_0 : bucketGet (cellToNeighbors twoTri) 0 = [1] := by decide

open DM.C05 in
theorem twoTri_incidentEdges_1 : incidentEdges twoTri 1 = [(0, 1), (1, 2), (1, 3)] := by decide

open DM.C05 in
theorem twoTri_classify : classify twoTri = .ball := by decide

open DM.C05 in
theorem twoTri_expectedChi : expectedChi twoTri = 1 := by decide

/-- the `Nodup` hypothesis of `vertexToCells_eq_direct` is needed: a cell with a repeated vertex is
listed twice by the index but once by the direct query (Level 1 rejects such a cell) -/
theorem vertexToCells_ne_direct_of_dup :
    let K : Cx := { D := 2, verts := [], cells := [⟨0, [1, 1, 2], none⟩] }
    bucketGet (vertexToCells K) 1 = [0, 0] ∧ adjacentCells K 1 = [0] := by decide

end DM.C15
