//! C10 — point location vs exact containment, every hint class (K1).
use crate::common::{catch, hxs, Ids, Out, Rng};
use crate::gens;
use crate::hist::{self, World};
use crate::tri;
use crate::Cfg;
use delaunay::core::algorithms::locate::{locate, locate_with_stats, LocateResult};
use delaunay::core::triangulation_data_structure::CellKey;
use delaunay::geometry::kernel::FastKernel;
use delaunay::geometry::point::Point;
use delaunay::geometry::traits::coordinate::Coordinate;

fn res_tok<const D: usize>(w: &mut World<D>, r: &Result<Result<LocateResult, String>, String>) -> String {
    match r {
        Err(m) => format!("panic {m}"),
        Ok(Err(e)) => format!("err {e}"),
        Ok(Ok(LocateResult::InsideCell(ck))) => {
            let id = w.dt.tds().get_cell(*ck).map(|c| c.uuid());
            match id { Some(u) => format!("in {}", w.ids.id(u)), None => "in 999999".into() }
        }
        Ok(Ok(LocateResult::Outside)) => "out".into(),
        Ok(Ok(other)) => format!("other {other:?}").replace(' ', "_"),
    }
}

fn one<const D: usize>(id: &str, rng: &mut Rng, out: &mut Out, foreign: CellKey, nq: usize) {
    one_with::<D>(id, rng, out, foreign, nq, false)
}

/// `near`: a small simplex 0, 4e_i with interior vertices, queried at points 2^-34 .. 2^-40 away from
/// its vertices (closer than the 1e-10 duplicate tolerance of insertion, yet with every facet side
/// exactly decidable: the determinants are ~1e-10 against a band of ~1e-11)
fn one_with<const D: usize>(id: &str, rng: &mut Rng, out: &mut Out, foreign: CellKey, nq: usize, near: bool) {
    let np = D + 2 + rng.below(match D { 2 => 9, 3 => 7, 4 => 4, _ => 3 }) as usize;
    let ps = if near {
        let mut pts: Vec<Vec<f64>> = vec![vec![0.0; D]];
        for a in 0..D { let mut p = vec![0.0; D]; p[a] = 4.0; pts.push(p); }
        pts.push(vec![1.0; D]);
        if rng.chance(1, 2) { let mut p = vec![0.5; D]; p[0] = 1.5; pts.push(p); }
        gens::PointSet { pts, family: "near_vertex", gp: true }
    } else { gens::point_set(rng, D, np) };
    let Some(mut w): Option<World<D>> = hist::start_built::<D>(&ps.pts, 1, rng) else { return };
    // a few incremental insertions so the state is not only batch-built
    for _ in 0..(if near { 0 } else { rng.below(4) }) {
        let (p, _) = w.pick_point(rng, 8);
        let _ = w.do_insert(p, false, rng);
    }
    // a stale key: remember a cell key, then make it disappear with one more insertion inside it
    let stale: Option<CellKey> = if near { None } else {
        let before: Vec<CellKey> = w.dt.cells().map(|(k, _)| k).collect();
        let (p, _) = w.pick_point(rng, 6);
        let _ = w.do_insert(p, false, rng);
        before.into_iter().find(|k| !w.dt.tds().contains_cell(*k))
    };
    if w.dt.number_of_cells() == 0 { return; }
    let kernel = FastKernel::<f64>::new();
    out.case(id, "loc", &format!("D={D} fam={}", ps.family));
    // queries: vertices, midpoints, averages of cell vertices, half-grid points, far outside points
    let live = w.live_coords();
    let mut queries: Vec<[f64; D]> = Vec::new();
    if near {
        for v in &live {
            for e in [-34i32, -37, -40] {
                let mut q = *v;
                for x in q.iter_mut() { *x += 2f64.powi(e) * [1.0, -1.0, 0.0][rng.below(3) as usize]; }
                if q != *v { queries.push(q); }
            }
        }
    }
    for _ in 0..(if near { 2 } else { nq }) {
        let mut q = [0.0f64; D];
        match rng.below(6) {
            0 => q = *rng.pick(&live),
            1 => { let a = rng.pick(&live); let b = rng.pick(&live); for i in 0..D { q[i] = (a[i] + b[i]) / 2.0; } }
            2 => {
                // weighted average of one cell's vertices with dyadic weights (interior or boundary of the cell)
                let cks: Vec<_> = w.dt.cells().map(|(k, _)| k).collect();
                let ck = *rng.pick(&cks);
                let vks = w.dt.tds().get_cell(ck).map(|c| c.vertices().to_vec()).unwrap_or_default();
                let mut wts: Vec<f64> = vks.iter().map(|_| [0.0, 1.0, 1.0, 2.0][rng.below(4) as usize]).collect();
                let s: f64 = wts.iter().sum();
                if s == 0.0 { wts[0] = 8.0; } else {
                    // make the weights sum to 8 (dyadic division)
                    let extra = 8.0 - s; wts[0] += extra;
                    if wts[0] < 0.0 { for x in wts.iter_mut() { *x = 0.0; } wts[0] = 8.0; }
                }
                for (j, vk) in vks.iter().enumerate() {
                    if let Some(v) = w.dt.tds().get_vertex_by_key(*vk) { for i in 0..D { q[i] += wts[j] * v.point().coords()[i] / 8.0; } }
                }
            }
            3 => { for x in q.iter_mut() { *x = rng.range(-16, 16) as f64 / 2.0; } }
            4 => { for x in q.iter_mut() { *x = rng.range(-8, 8) as f64; } let ax = rng.below(D as u64) as usize; q[ax] = if rng.chance(1, 2) { 1e6 } else { -1e6 }; }
            _ => { for x in q.iter_mut() { *x = rng.range(-60, 60) as f64; } }
        }
        queries.push(q);
    }
    // hints: none, up to 5 live cells, stale, foreign
    let cks: Vec<CellKey> = w.dt.cells().map(|(k, _)| k).collect();
    let mut hints: Vec<(String, Option<CellKey>)> = vec![("none".into(), None)];
    let mut pick = cks.clone();
    rng.shuffle(&mut pick);
    for k in pick.into_iter().take(5) {
        let u = w.dt.tds().get_cell(k).map(|c| c.uuid()).unwrap();
        hints.push((format!("c{}", w.ids.id(u)), Some(k)));
    }
    if let Some(s) = stale { hints.push(("stale".into(), Some(s))); }
    hints.push(("foreign".into(), Some(foreign)));
    let mut stats_same = true;
    let mut lines: Vec<String> = Vec::new();
    for (qi, q) in queries.iter().enumerate() {
        lines.push(format!("lq q{qi} {}", hxs(q)));
        let p = Point::new(*q);
        for (hn, hk) in &hints {
            let r = catch(|| locate(w.dt.tds(), &kernel, &p, *hk).map_err(|e| tri::err_kind(&format!("{e:?}"))));
            let r2 = catch(|| locate_with_stats(w.dt.tds(), &kernel, &p, *hk).map(|(r, _)| r).map_err(|e| tri::err_kind(&format!("{e:?}"))));
            let t1 = res_tok(&mut w, &r);
            let t2 = res_tok(&mut w, &r2);
            if t1 != t2 { stats_same = false; }
            lines.push(format!("lr q{qi} {hn} {t1}"));
        }
        // hook H4: cap the walk so that the exhaustive-scan fallback answers (the model's fuel)
        for (hn, hk) in hints.iter().take(2) {
            for budget in [0usize, 1, 3] {
                delaunay::verif::set_walk_budget(Some(budget));
                let r = catch(|| locate_with_stats(w.dt.tds(), &kernel, &p, *hk).map(|(r, st)| (r, st.fallback.is_some())).map_err(|e| tri::err_kind(&format!("{e:?}"))));
                delaunay::verif::set_walk_budget(None);
                let fell_back = matches!(&r, Ok(Ok((_, true))));
                let r1 = match r { Ok(Ok((x, _))) => Ok(Ok(x)), Ok(Err(e)) => Ok(Err(e)), Err(m) => Err(m) };
                let t = res_tok(&mut w, &r1);
                lines.push(format!("lr q{qi} {hn}@b{budget}{} {t}", if fell_back { "s" } else { "w" }));
            }
        }
    }
    let mut ids: Ids = std::mem::take(&mut w.ids);
    tri::export(&w.dt, &mut ids, out);
    for l in lines { out.line(&l); }
    out.obs("stats_same", if stats_same { "1" } else { "0 locate and locate_with_stats disagree" });
    out.end();
}

pub fn run(cfg: &Cfg, rng: &mut Rng, out: &mut Out) {
    let thorough = cfg.tier == "thorough";
    // a cell key from an unrelated triangulation (foreign hint)
    let fpts = gens::to_f(&gens::general_position(rng, 2, 6, 8), 1.0, 0.0);
    let fw: World<2> = hist::start_built::<2>(&fpts, 1, rng).expect("foreign triangulation");
    let foreign = fw.dt.cells().map(|(k, _)| k).last().unwrap();
    for i in 0..(if thorough { 8 } else { 2 }) {
        one_with::<2>(&format!("nv2_{i}"), rng, out, foreign, 0, true);
        one_with::<3>(&format!("nv3_{i}"), rng, out, foreign, 0, true);
        one_with::<4>(&format!("nv4_{i}"), rng, out, foreign, 0, true);
    }
    let n = if thorough { 400 } else { 120 };
    let nq = if thorough { 40 } else { 20 };
    for i in 0..n {
        let id = format!("l{i}");
        match 2 + (i % 4) {
            2 => one::<2>(&id, rng, out, foreign, nq),
            3 => one::<3>(&id, rng, out, foreign, nq),
            4 => one::<4>(&id, rng, out, foreign, nq / 2),
            _ => one::<5>(&id, rng, out, foreign, nq / 2),
        }
    }
}
