/-
Props/C08.lean — property theorems for C08 (flip-based repair returns a Delaunay triangulation of
the same vertices).

For EVERY flip scheduler (`Env.attempt`) and every rebuild behaviour (`Env.rebuild`):
 * `repair_ok_gated` / `advanced_ok_gated`: `Ok` is returned only for a state the postcondition
   verifier accepted (what that verdict means is C04; the K3 tie re-judges it exactly);
 * `repair_err_unchanged` / `advanced_err_unchanged`: every `Err` leaves the pre-repair state;
 * `repair_inadmissible_untouched`: when the guarantee does not admit facet flips the public
   entry point returns `InvalidTopology` without running an attempt; `admissible_table` is the
   library's admissibility relation (facet flips are admissible under all three guarantees —
   docs/workflows.md says otherwise; the code and its unit tests are taken as the contract);
 * `repair_decision_table`: automatic repair proceeds iff the policy is due AND the operation is
   admissible; never with `Never`, never in D < 2, never without cells;
 * `rebuild_bounded`: the heuristic rebuild makes at most `fuel` attempts.
Not proved: convergence (false in general for D ≥ 3 from arbitrary triangulations), and that flips
with 2 ≤ k ≤ D keep the vertex set — that is `C07.flip_vertex_set`.
-/
import DelaunayModel.Model.Repair
namespace DM.C08

open DM.Policy DM.Repair

variable {S : Type}

theorem attempts_ok_gated (env : Env S) (robust : Bool) (s0 s' fin : S) (n : Nat)
    (h : attempts env robust s0 = (.ok (s', n), fin)) : env.post s' = true ∧ fin = s' := by
  unfold attempts at h
  simp only at h
  repeat' split at h
  all_goals first
    | (injection h with h1 h2; injection h1 with h1; injection h1 with h1 h3
       subst h1; subst h2; simp_all)
    | simp at h

theorem repairK2K3_ok_gated (env : Env S) (robust : Bool) (s0 s' : S) (n : Nat)
    (h : repairK2K3 env robust s0 = (.ok n, s')) : env.post s' = true := by
  unfold repairK2K3 at h
  split at h
  · rename_i s1 n1 fin heq
    injection h with h1 h2
    subst h2
    exact (attempts_ok_gated env robust s0 s1 fin n1 heq).1
  · simp at h

theorem repairK2K3_err_unchanged (env : Env S) (robust : Bool) (s0 s' : S) (e : RErr)
    (h : repairK2K3 env robust s0 = (.error e, s')) : s' = s0 := by
  unfold repairK2K3 at h
  split at h
  · simp at h
  · injection h with _ h2; exact h2.symm

/-- **gate**: the public entry point returns `Ok` only for a verified state -/
theorem repair_ok_gated (env : Env S) (s0 s' : S) (n : Nat)
    (h : repairPublic env s0 = (.ok n, s')) : env.post s' = true := by
  unfold repairPublic at h
  split at h
  · simp at h
  · exact repairK2K3_ok_gated env false s0 s' n h

/-- **Err means unchanged** -/
theorem repair_err_unchanged (env : Env S) (s0 s' : S) (e : RErr)
    (h : repairPublic env s0 = (.error e, s')) : s' = s0 := by
  unfold repairPublic at h
  split at h
  · injection h with _ h2; exact h2.symm
  · exact repairK2K3_err_unchanged env false s0 s' e h

/-- when facet flips are not admissible no attempt runs and the state is untouched -/
theorem repair_inadmissible_untouched (env : Env S) (s0 : S)
    (h : Operation.facetFlip.admissibleUnder (env.guarantee s0) = false) :
    repairPublic env s0 = (.error .invalidTopology, s0) := by
  unfold repairPublic; simp [h]

/-- the library's admissibility relation, stated outright -/
theorem admissible_table (op : Operation) (g : Guarantee) :
    op.admissibleUnder g = false ↔ (op = .cavityFlip ∧ g = .pseudomanifold) := by
  cases op <;> cases g <;> simp [Operation.admissibleUnder, Operation.requiresPL]

theorem repair_decision_table (p : RepairPolicy) (count : Nat) (g : Guarantee) (op : Operation) :
    p.decide count g op = .proceed ↔ (p.shouldRepair count = true ∧ op.admissibleUnder g = true) := by
  unfold RepairPolicy.decide
  cases h1 : p.shouldRepair count <;> cases h2 : op.admissibleUnder g <;> simp

theorem shouldRunRepair_iff (D : Nat) (hasCells : Bool) (p : RepairPolicy) (count : Nat) (g : Guarantee) :
    shouldRunRepair D hasCells p count g = true ↔
      (2 ≤ D ∧ hasCells = true ∧ p ≠ .never ∧ p.shouldRepair count = true ∧
        Operation.facetFlip.admissibleUnder g = true) := by
  unfold shouldRunRepair
  by_cases hD : D < 2
  · simp [hD]; omega
  · have hD' : 2 ≤ D := by omega
    cases hasCells
    · simp [hD]
    · by_cases hp : p = .never
      · subst hp; simp [hD]
      · have hb : (p == RepairPolicy.never) = false := by simpa using hp
        simp only [hD, ↓reduceIte, Bool.not_true, Bool.false_eq_true, hb, beq_iff_eq,
          repair_decision_table, hD', true_and, ne_eq, hp, not_false_eq_true]

theorem rebuildLoop_accepted (env : Env S) (s0 c : S) (n fuel i : Nat)
    (h : rebuildLoop env s0 fuel i = some (c, n)) : env.post c = true := by
  induction fuel generalizing i with
  | zero => simp [rebuildLoop] at h
  | succ f ih =>
    unfold rebuildLoop at h
    split at h
    · rename_i cand _
      split at h
      · rename_i n' c' heq
        injection h with h; injection h with h1 h2; subst h1
        exact repairK2K3_ok_gated env false cand c' n' heq
      · exact ih _ h
    · exact ih _ h

theorem advanced_ok_gated (env : Env S) (k : Nat) (s0 s' : S) (n : Nat) (heur : Bool)
    (h : repairAdvanced env k s0 = (.ok (n, heur), s')) : env.post s' = true := by
  unfold repairAdvanced at h
  split at h
  · rename_i n1 s1 heq
    injection h with h1 h2; subst h2
    exact repair_ok_gated env s0 s1 n1 heq
  · split at h
    · split at h
      · rename_i n1 s1 heq
        injection h with h1 h2; subst h2
        exact repairK2K3_ok_gated env true s0 s1 n1 heq
      · split at h
        · rename_i c n1 heq
          injection h with h1 h2; subst h2
          exact rebuildLoop_accepted env s0 c n1 k 0 heq
        · simp at h
    · simp at h

theorem advanced_err_unchanged (env : Env S) (k : Nat) (s0 s' : S) (e : RErr)
    (h : repairAdvanced env k s0 = (.error e, s')) : s' = s0 := by
  unfold repairAdvanced at h
  split at h
  · simp at h
  · split at h
    · split at h
      · simp at h
      · split at h
        · simp at h
        · injection h with _ h2; exact h2.symm
    · injection h with _ h2; exact h2.symm

/-- number of rebuild candidates requested by `rebuildLoop` is at most `fuel` -/
def rebuildCalls (env : Env S) (s0 : S) : Nat → Nat → Nat
  | 0, _ => 0
  | fuel+1, i =>
    match env.rebuild i s0 with
    | some c =>
      match repairK2K3 env false c with
      | (.ok _, _) => 1
      | (.error _, _) => 1 + rebuildCalls env s0 fuel (i + 1)
    | none => 1 + rebuildCalls env s0 fuel (i + 1)

theorem rebuild_bounded (env : Env S) (s0 : S) (fuel i : Nat) : rebuildCalls env s0 fuel i ≤ fuel := by
  induction fuel generalizing i with
  | zero => simp [rebuildCalls]
  | succ f ih =>
    unfold rebuildCalls
    split
    · split
      · omega
      · have := ih (i + 1); omega
    · have := ih (i + 1); omega

/-- non-vacuity: attempt 1 fails its postcondition, attempt 2 (from the snapshot) passes -/
example : repairPublic (S := Nat)
    { attempt := fun i _ s => .ok (s + i, i), post := fun s => s == 2,
      rebuild := fun _ _ => none, guarantee := fun _ => .plManifold } 0 = (.ok 2, 2) := by rfl
/-- non-vacuity: all three attempts fail ⇒ Err and the original state -/
example : (repairPublic (S := Nat)
    { attempt := fun i _ s => .ok (s + i, i), post := fun _ => false,
      rebuild := fun _ _ => none, guarantee := fun _ => .plManifold } 0).2 = 0 := by rfl

end DM.C08
