//! C07 — bistellar flips through the public Edit API: every handle class, outcome, FlipInfo,
//! cell-count delta, invariants after each flip (Lean side) and exact invertibility (fingerprint).
use crate::common::{catch, fingerprint, Out, Rng};
use crate::gens;
use crate::hist::{self, World};
use crate::tri;
use crate::Cfg;
use delaunay::core::facet::FacetHandle;
use delaunay::triangulation::flips::{BistellarFlips, EdgeKey, RidgeHandle, TriangleHandle};

/// flip then invert from the created face: the fingerprint must be restored exactly
fn roundtrip<const D: usize>(w: &mut World<D>, rng: &mut Rng) -> Vec<(String, String)> {
    let mut obs = Vec::new();
    let cks: Vec<_> = w.dt.cells().map(|(k, _)| k).collect();
    if cks.is_empty() { return obs; }
    let before = fingerprint(w.dt.tds());
    let ck = *rng.pick(&cks);
    let which = rng.below(3);
    if which == 0 {
        // k=1: insert a vertex at a dyadic interior point of the cell, then remove it
        let vks = w.dt.tds().get_cell(ck).map(|c| c.vertices().to_vec()).unwrap_or_default();
        let mut p = [0.0f64; D];
        let mut wsum = 0.0;
        for (j, vk) in vks.iter().enumerate() {
            let wgt = [1.0, 2.0, 1.0, 4.0, 2.0, 1.0, 1.0][j % 7];
            wsum += wgt;
            if let Some(v) = w.dt.tds().get_vertex_by_key(*vk) {
                for i in 0..D { p[i] += wgt * v.point().coords()[i]; }
            }
        }
        let _ = wsum;
        let denom = if D % 2 == 0 { 16.0 } else { 8.0 };
        for x in p.iter_mut() { *x /= denom; }
        // only a strictly interior point is a legal k=1 insertion; weights sum to <= denom when D small
        let v = w.vertex(p, rng);
        let r = catch(|| w.dt.flip_k1_insert(ck, v).map_err(|e| tri::err_kind(&format!("{e:?}"))));
        match r {
            Ok(Ok(info)) => {
                obs.push(("outcome".into(), "k1:ok".into()));
                let newv = info.inserted_face_vertices.first().copied();
                let r2 = catch(|| match newv { Some(k) => w.dt.flip_k1_remove(k).map(|_| ()).map_err(|e| tri::err_kind(&format!("{e:?}"))), None => Err("NoVertex".into()) });
                let after = fingerprint(w.dt.tds());
                obs.push(("roundtrip_equal".into(), if matches!(r2, Ok(Ok(()))) && after == before { "1".into() } else { format!("0 k1 insert+remove did not restore the cell set (inverse result {r2:?})") }));
            }
            Ok(Err(e)) => {
                obs.push(("outcome".into(), format!("k1:err:{e}")));
                let after = fingerprint(w.dt.tds());
                obs.push(("unchanged".into(), if after == before { "1".into() } else { "0 failed k1 insert changed the triangulation".into() }));
            }
            Err(m) => obs.push(("outcome".into(), format!("panic:{m}"))),
        }
    } else if which == 1 {
        let i = rng.below((D + 1) as u64) as u8;
        let r = catch(|| w.dt.flip_k2(FacetHandle::new(ck, i)).map_err(|e| tri::err_kind(&format!("{e:?}"))));
        match r {
            Ok(Ok(info)) => {
                obs.push(("outcome".into(), "k2:ok".into()));
                let e = &info.inserted_face_vertices;
                let r2 = if e.len() == 2 && D >= 3 {
                    catch(|| w.dt.flip_k2_inverse_from_edge(EdgeKey::new(e[0], e[1])).map(|_| ()).map_err(|x| tri::err_kind(&format!("{x:?}"))))
                } else if e.len() == 2 {
                    // D = 2: the inverse of an edge flip is the edge flip of the created edge
                    let nk = info.new_cells.first().copied();
                    catch(|| {
                        let Some(nk) = nk else { return Err("NoNewCell".to_string()) };
                        let Some(c) = w.dt.tds().get_cell(nk) else { return Err("NoNewCell".to_string()) };
                        let slot = c.vertices().iter().position(|v| !e.contains(v));
                        match slot { Some(s) => w.dt.flip_k2(FacetHandle::new(nk, s as u8)).map(|_| ()).map_err(|x| tri::err_kind(&format!("{x:?}"))), None => Err("NoSlot".to_string()) }
                    })
                } else { Ok(Err("BadFlipInfo".into())) };
                let after = fingerprint(w.dt.tds());
                obs.push(("roundtrip_equal".into(), if matches!(r2, Ok(Ok(()))) && after == before { "1".into() } else { format!("0 k2 + inverse-from-edge did not restore the cell set (inverse result {r2:?})") }));
            }
            Ok(Err(e)) => {
                obs.push(("outcome".into(), format!("k2:err:{e}")));
                let after = fingerprint(w.dt.tds());
                obs.push(("unchanged".into(), if after == before { "1".into() } else { "0 failed k2 flip changed the triangulation".into() }));
            }
            Err(m) => obs.push(("outcome".into(), format!("panic:{m}"))),
        }
    } else if D >= 3 {
        let a = rng.below((D + 1) as u64) as u8;
        let b = (a + 1 + rng.below(D as u64) as u8) % (D as u8 + 1);
        let r = catch(|| w.dt.flip_k3(RidgeHandle::new(ck, a, b)).map_err(|e| tri::err_kind(&format!("{e:?}"))));
        match r {
            Ok(Ok(info)) => {
                obs.push(("outcome".into(), "k3:ok".into()));
                let t = &info.inserted_face_vertices;
                let r2 = if t.len() == 3 && D >= 4 {
                    catch(|| w.dt.flip_k3_inverse_from_triangle(TriangleHandle::new(t[0], t[1], t[2])).map(|_| ()).map_err(|x| tri::err_kind(&format!("{x:?}"))))
                } else if t.len() == 3 {
                    // D = 3: the created triangle is a facet shared by the two new cells: inverse is k=2 on it
                    let nk = info.new_cells.first().copied();
                    catch(|| {
                        let Some(nk) = nk else { return Err("NoNewCell".to_string()) };
                        let Some(c) = w.dt.tds().get_cell(nk) else { return Err("NoNewCell".to_string()) };
                        let slot = c.vertices().iter().position(|v| !t.contains(v));
                        match slot { Some(s) => w.dt.flip_k2(FacetHandle::new(nk, s as u8)).map(|_| ()).map_err(|x| tri::err_kind(&format!("{x:?}"))), None => Err("NoSlot".to_string()) }
                    })
                } else { Ok(Err("BadFlipInfo".into())) };
                let after = fingerprint(w.dt.tds());
                obs.push(("roundtrip_equal".into(), if matches!(r2, Ok(Ok(()))) && after == before { "1".into() } else { format!("0 k3 + inverse did not restore the cell set (inverse result {r2:?})") }));
            }
            Ok(Err(e)) => {
                obs.push(("outcome".into(), format!("k3:err:{e}")));
                let after = fingerprint(w.dt.tds());
                obs.push(("unchanged".into(), if after == before { "1".into() } else { "0 failed k3 flip changed the triangulation".into() }));
            }
            Err(m) => obs.push(("outcome".into(), format!("panic:{m}"))),
        }
    }
    obs
}

fn history<const D: usize>(hid: usize, rng: &mut Rng, out: &mut Out, steps: usize) {
    let np = D + 2 + rng.below(7) as usize;
    let ps = gens::point_set(rng, D, np);
    let Some(mut w): Option<World<D>> = hist::start_built::<D>(&ps.pts, 1, rng) else { return };
    let mut seen_kinds: std::collections::HashSet<String> = std::collections::HashSet::new();
    let mut case_no = 0usize;
    for _s in 0..steps {
        let mode = rng.below(8);
        if mode == 0 {
            let obs = roundtrip(&mut w, rng);
            if !obs.is_empty() {
                case_no += 1;
                w.emit_state(&format!("e{D}_{hid}_{case_no}"), "flip", "expect=valid12m", &obs, out, false);
            }
            continue;
        }
        // walk handles of the chosen class in random order until one flip succeeds; every new
        // outcome kind and every success is emitted as a case
        let kind = match mode { 1 | 2 => 0u64, 3 | 4 => 2, 5 => 3, 6 => 4, _ => 5 };
        if kind == 2 && D < 3 { continue; }
        let mut handles: Vec<(delaunay::core::triangulation_data_structure::CellKey, u8, u8)> = Vec::new();
        for (ck, _) in w.dt.cells() {
            for a in 0..=(D as u8) {
                if kind == 0 { handles.push((ck, a, a)); } else {
                    for b in (a + 1)..=(D as u8) { handles.push((ck, a, b)); }
                }
            }
        }
        rng.shuffle(&mut handles);
        handles.truncate(if kind == 5 { 2 } else { 40 });
        for h in handles {
            let obs = w.do_flip_kind(kind, Some(h), rng);
            if obs.is_empty() { continue; }
            let outcome = obs.iter().find(|(k, _)| k == "outcome").map(|(_, v)| v.clone()).unwrap_or_default();
            let ok = outcome.ends_with(":ok");
            let bad = obs.iter().any(|(k, v)| (k == "unchanged" || k == "one_added" || k == "key_resolves") && v != "1");
            if ok || bad || seen_kinds.insert(outcome.clone()) {
                case_no += 1;
                w.emit_state(&format!("e{D}_{hid}_{case_no}"), "flip", "expect=valid12m", &obs, out, false);
            }
            if ok { break; }
        }
    }
}


/// long walk of successful flips (k2, k3 and their inverses); only cell sets are reported, so
/// hundreds of steps stay cheap.  Flips are combinatorial: after many of them the complex is far
/// from any embedded triangulation, which is where guards that "cannot fire" on fresh Delaunay
/// triangulations are needed.
fn walk<const D: usize>(hid: usize, rng: &mut Rng, out: &mut Out, steps: usize, np: usize) {
    let ps = gens::point_set(rng, D, np);
    let Some(mut w): Option<World<D>> = hist::start_built::<D>(&ps.pts, 1, rng) else { return };
    let j = |v: &[usize]| v.iter().map(|x| x.to_string()).collect::<Vec<_>>().join(",");
    let js = |cs: &[Vec<usize>]| cs.iter().map(|c| j(c)).collect::<Vec<_>>().join(";");
    out.case(&format!("w{D}_{hid}"), "flipw", &format!("D={D} g={} np={np}", w.g));
    let cs0 = w.cell_sets();
    out.line(&format!("cs0 {}", js(&cs0)));
    let mut done = 0usize;
    let mut refused_changed = 0usize;
    let mut tries = 0usize;
    while done < steps && tries < steps * 60 {
        tries += 1;
        let cks: Vec<_> = w.dt.cells().map(|(k, _)| k).collect();
        if cks.is_empty() { break; }
        let ck = *rng.pick(&cks);
        let a = rng.below((D + 1) as u64) as u8;
        let b = (a + 1 + rng.below(D as u64) as u8) % (D as u8 + 1);
        // k = 1 insert / remove recycle vertex slots (key versions then differ inside one cell),
        // which is when hash- or order-based guards have to prove themselves
        let kind = match rng.below(11) { 0 | 1 => 0u64, 2..=5 => 2, 6 => 3, 7 => 4, 8 | 9 => 5, _ => 6 };
        if (kind == 2 || kind == 4) && D < 3 { continue; }
        if kind == 3 && D < 3 { continue; }
        if kind == 5 && w.dt.number_of_vertices() > np + 6 { continue; }
        // refused flips must leave the state unchanged: checked on a sample here (a fingerprint per
        // try dominates the run time; the per-handle histories above check every refusal)
        let sample = tries % 8 == 0;
        let before = if sample { fingerprint(w.dt.tds()) } else { String::new() };
        let vs: Vec<_> = w.dt.tds().get_cell(ck).map(|c| c.vertices().to_vec()).unwrap_or_default();
        let (name, r) = match kind {
            0 => ("k2", catch(|| w.dt.flip_k2(FacetHandle::new(ck, a)).map_err(|_| ()))),
            2 => ("k3", catch(|| w.dt.flip_k3(RidgeHandle::new(ck, a, b)).map_err(|_| ()))),
            3 => ("k2inv", catch(|| w.dt.flip_k2_inverse_from_edge(EdgeKey::new(vs[a as usize], vs[b as usize])).map_err(|_| ()))),
            5 => {
                // dyadic interior point of the cell
                let mut p = [0.0f64; D];
                let denom = if D % 2 == 0 { 16.0 } else { 8.0 };
                let wts = [1.0, 2.0, 1.0, 4.0, 2.0, 1.0, 1.0];
                let mut wsum = 0.0;
                for (j, vk) in vs.iter().enumerate() {
                    if let Some(v) = w.dt.tds().get_vertex_by_key(*vk) { for i in 0..D { p[i] += wts[j % 7] * v.point().coords()[i] / denom; } }
                    wsum += wts[j % 7];
                }
                if let Some(v0) = vs.first().and_then(|k| w.dt.tds().get_vertex_by_key(*k)) { for i in 0..D { p[i] += (denom - wsum) * v0.point().coords()[i] / denom; } }
                let v = w.vertex(p, rng);
                ("k1", catch(|| w.dt.flip_k1_insert(ck, v).map_err(|_| ())))
            }
            6 => {
                let keys = w.live_keys();
                let vk = *rng.pick(&keys);
                ("k1inv", catch(|| w.dt.flip_k1_remove(vk).map_err(|_| ())))
            }
            _ => {
                let c3 = (0..=(D as u8)).find(|x| *x != a && *x != b).unwrap_or(0);
                ("k3inv", catch(|| w.dt.flip_k3_inverse_from_triangle(TriangleHandle::new(vs[a as usize], vs[b as usize], vs[c3 as usize])).map_err(|_| ())))
            }
        };
        match r {
            Ok(Ok(info)) => {
                done += 1;
                // a removed vertex (inverse k = 1) no longer resolves: ids come from the uuid table
                // filled while it was alive (cell_sets of the previous steps registered it)
                let rr = w.vk_ids(&info.removed_face_vertices);
                let ii = w.vk_ids(&info.inserted_face_vertices);
                if rr.contains(&999_999) || ii.contains(&999_999) {
                    // the face of an inverse k = 1 move contains the deleted vertex: restart the
                    // model from the new cell set instead of stepping it
                    let post = w.cell_sets();
                    out.line(&format!("rs {}", js(&post)));
                    continue;
                }
                let post = w.cell_sets();
                out.line(&format!("st {name} {} {} {}", j(&rr), j(&ii), js(&post)));
            }
            Ok(Err(())) => { if sample && fingerprint(w.dt.tds()) != before { refused_changed += 1; } }
            Err(_) => { out.obs("panic", name); break; }
        }
    }
    out.obs("refused_changed", &refused_changed.to_string());
    out.end();
    // the state reached by the walk is also judged in full (L1, L2, manifold invariants)
    w.emit_state(&format!("w{D}_{hid}_end"), "flip", "expect=valid12m", &[], out, false);
}

pub fn run(cfg: &Cfg, rng: &mut Rng, out: &mut Out) {
    let thorough = cfg.tier == "thorough";
    let nh = if thorough { 40 } else { 5 };
    for h in 0..nh {
        history::<2>(h, rng, out, if thorough { 60 } else { 20 });
        history::<3>(h, rng, out, if thorough { 60 } else { 20 });
        history::<4>(h, rng, out, if thorough { 40 } else { 14 });
        history::<5>(h, rng, out, if thorough { 30 } else { 10 });
    }
    let nw = if thorough { 12 } else { 3 };
    for h in 0..nw {
        walk::<2>(h, rng, out, if thorough { 800 } else { 400 }, 10);
        walk::<3>(h, rng, out, if thorough { 800 } else { 400 }, 12);
        walk::<4>(h, rng, out, if thorough { 1200 } else { 600 }, 13 + h % 2);
        walk::<5>(h, rng, out, if thorough { 600 } else { 300 }, 9);
    }
}
