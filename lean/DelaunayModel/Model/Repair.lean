/-
Model/Repair.lean — control structure of flip-based Delaunay repair
(src/core/algorithms/flips.rs `repair_delaunay_with_flips_k2_k3` :2559 ff. with the transactional
guard added by the `fix:` commit; `src/core/delaunay_triangulation.rs`
`repair_delaunay_with_flips` :3792, `repair_delaunay_with_flips_advanced` :3938,
`run_flip_repair_fallbacks` :3866, `rebuild_with_heuristic` :4018).

The flip scheduler of one attempt (queues, predicates, budget) is a PARAMETER `Env.attempt`;
what is modelled is: which attempt runs from which state, that `Ok` is returned only after the
postcondition verifier accepted the state, that every `Err` leaves the pre-repair state, and the
fallback chain robust pass → heuristic rebuild (≤ `rebuildAttempts`, never nested).
-/
import DelaunayModel.Model.Policy
namespace DM.Repair

open DM.Policy

inductive RErr where
  | nonConvergent | postcondition | invalidTopology | other (msg : String) | rebuildFailed
  deriving Repr, DecidableEq

structure Env (S : Type) where
  /-- one repair attempt `i ∈ {1,2,3}` from a state, with the kernel in use (`robust`) -/
  attempt : Nat → Bool → S → Except RErr (S × Nat)
  /-- `verify_repair_postcondition` (flip-predicate Level 4 + connectedness in debug) -/
  post : S → Bool
  /-- one heuristic rebuild attempt (shuffled re-insertion of the same vertices) -/
  rebuild : Nat → S → Option S
  guarantee : S → Guarantee

variable {S : Type}

/-- the three attempts of `repair_delaunay_with_flips_k2_k3_attempts`: returns result and the state
left behind (no rollback at this level) -/
def attempts (env : Env S) (robust : Bool) (s0 : S) : Except RErr (S × Nat) × S :=
  let second (_ : Unit) : Except RErr (S × Nat) × S :=
    match env.attempt 2 robust s0 with
    | .ok (s2, n2) =>
      if env.post s2 then (.ok (s2, n2), s2) else
      -- attempt 3 from the snapshot
      match env.attempt 3 robust s0 with
      | .ok (s3, n3) => if env.post s3 then (.ok (s3, n3), s3) else (.error .postcondition, s3)
      | .error e => (.error e, s0)
    | .error .nonConvergent =>
      match env.attempt 3 robust s0 with
      | .ok (s3, n3) => if env.post s3 then (.ok (s3, n3), s3) else (.error .postcondition, s3)
      | .error e => (.error e, s0)
    | .error e => (.error e, s0)
  match env.attempt 1 robust s0 with
  | .ok (s1, n1) => if env.post s1 then (.ok (s1, n1), s1) else second ()
  | .error .nonConvergent => second ()
  | .error e => (.error e, s0)

/-- `repair_delaunay_with_flips_k2_k3` with the transactional guard: any `Err` restores `s0` -/
def repairK2K3 (env : Env S) (robust : Bool) (s0 : S) : Except RErr Nat × S :=
  match attempts env robust s0 with
  | (.ok (s', n), _) => (.ok n, s')
  | (.error e, _) => (.error e, s0)

/-- `repair_delaunay_with_flips` (public): admissibility gate, then the three attempts -/
def repairPublic (env : Env S) (s0 : S) : Except RErr Nat × S :=
  if !(Operation.facetFlip.admissibleUnder (env.guarantee s0)) then (.error .invalidTopology, s0)
  else repairK2K3 env false s0

/-- heuristic rebuild: at most `fuel` attempts, each from the ORIGINAL state; a candidate (shuffled
re-insertion of the same vertices, a parameter) is accepted only if the final flip repair on it
returns `Ok`; never nested (the rebuild parameter cannot call back) -/
def rebuildLoop (env : Env S) (s0 : S) : Nat → Nat → Option (S × Nat)
  | 0, _ => none
  | fuel+1, i =>
    match env.rebuild i s0 with
    | some c =>
      match repairK2K3 env false c with
      | (.ok n, c') => some (c', n)
      | (.error _, _) => rebuildLoop env s0 fuel (i + 1)
    | none => rebuildLoop env s0 fuel (i + 1)

/-- `repair_delaunay_with_flips_advanced` -/
def repairAdvanced (env : Env S) (rebuildAttempts : Nat) (s0 : S) : Except RErr (Nat × Bool) × S :=
  match repairPublic env s0 with
  | (.ok n, s') => (.ok (n, false), s')
  | (.error e, _) =>
    if e == .nonConvergent || e == .postcondition then
      match repairK2K3 env true s0 with
      | (.ok n, s') => (.ok (n, false), s')
      | (.error _, _) =>
        match rebuildLoop env s0 rebuildAttempts 0 with
        | some (c, n) => (.ok (n, true), c)
        | none => (.error .rebuildFailed, s0)
    else (.error e, s0)

end DM.Repair
